# Per-property configuration of the checks (single source for check and MANIFEST.json).

REAL_E1 = ("real: internal/db (collections, merge, txn, schema, indexes), internal/core/{block,crdt}, planner, "
           "fetcher, GraphQL parser, event bus, badger (in-memory) under SimStore; stub: network = direct block copy "
           "through the public rootstore + synchronous merge hook (VerifExecuteMerge), disk = committed-batch log, "
           "crypto/rand = seeded per (step, call site); not run: net package, libp2p, HTTP/CLI")

ASSUME_COMMON = [
    "DefraDB behaves under go1.26.8 (needed for testing/synctest) as under the pinned go1.23.8",
    "badger's own WAL/LSM behaviour is below the storage seam and not examined",
    "a clean batch is evidence, not proof: schedules and histories are sampled from a seeded generator",
]

E1_RULE = ("plans from the E1 generator (2-4 real nodes, <=3 documents, <=30 local operations on register/counter "
           "fields incl. null, deletes, deliveries of arbitrary commits incl. redelivery and out-of-order ancestors, "
           "anti-entropy); a run is non-trivial if it had >=1 pair of concurrent commits and >=1 redelivery; distinct = "
           "distinct hash of (commit-DAG shape, per-node delivery order)")

PROPS = {
    "C01": {
        "engine": "E1", "level": "exploration", "design_ref": "DESIGN.md §5 C01",
        "technique": "deterministic simulation: n-replica cluster, seeded delivery schedules with duplication/reordering, cross-replica equality + merge-never-fails oracle",
        "rule": E1_RULE, "real_vs_stub": REAL_E1, "assumptions": ASSUME_COMMON,
        "probes": ["concurrent_pairs", "redeliveries", "deliver_below_frontier", "deliver_with_heads_at_different_heights", "converged_checked"],
        "quick": {"count": 150, "budget_s": 60, "workers": 16},
        "thorough": {"count": 100000, "budget_s": 1500, "workers": 16},
        "text": "Seeded search over replica counts, concurrent histories and delivery schedules on real DefraDB nodes; every merge result and the converged state of all replicas are checked. Sampling, not proof.",
        "note": "Trusted: harness model of commit ancestry (recorded when operations are issued), block copy through the public rootstore, the verif merge hook; toolchain skew go1.26.8 vs 1.23.8.",
    },
    "C02": {
        "engine": "E1", "level": "exploration", "design_ref": "DESIGN.md §5 C02",
        "technique": "deterministic simulation: reference CRDT model (merged-set semantics) evaluated after every single delivery and local operation",
        "rule": E1_RULE, "real_vs_stub": REAL_E1, "assumptions": ASSUME_COMMON,
        "probes": ["concurrent_pairs", "redeliveries", "deliver_below_frontier", "deliver_with_heads_at_different_heights"],
        "quick": {"count": 150, "budget_s": 60, "workers": 16},
        "thorough": {"count": 100000, "budget_s": 1500, "workers": 16},
        "text": "After every delivery (incl. redelivery of heads and arbitrary ancestors) each node's documents are compared with a trivial reference model: counter = sum of merged increments, register in the causally latest writes, delete permanent, ancestors visible.",
        "note": "Trusted: the reference model (set of merged commits closed under harness-recorded ancestry); increments chosen exactly representable.",
    },
}
