# Per-property configuration of the checks (single source for check and MANIFEST.json).

REAL_E1 = ("real: internal/db (collections, merge, txn, schema, indexes), internal/core/{block,crdt}, planner, "
           "fetcher, GraphQL parser, event bus, badger (in-memory) under SimStore; stub: network = direct block copy "
           "through the public rootstore + synchronous merge hook (VerifExecuteMerge), disk = committed-batch log, "
           "crypto/rand = seeded per (step, call site); not run: net package, libp2p, HTTP/CLI")

ASSUME_COMMON = [
    "DefraDB behaves under go1.26.8 (needed for testing/synctest) as under the pinned go1.23.8",
    "badger's own WAL/LSM behaviour is below the storage seam and not examined",
    "a clean batch is evidence, not proof: schedules and histories are sampled from a seeded generator",
]

E1_RULE = ("plans from the E1 generator (2-4 real nodes, <=3 documents, <=30 local operations on register/counter "
           "fields incl. null, deletes, deliveries of arbitrary commits incl. redelivery and out-of-order ancestors, "
           "anti-entropy); a run is non-trivial if it had >=1 pair of concurrent commits and >=1 redelivery; distinct = "
           "distinct hash of (commit-DAG shape, per-node delivery order)")

PROPS = {
    "C01": {
        "engine": "E1", "level": "exploration", "design_ref": "DESIGN.md §5 C01",
        "technique": "deterministic simulation: n-replica cluster, seeded delivery schedules with duplication/reordering, cross-replica equality + merge-never-fails oracle",
        "rule": E1_RULE, "real_vs_stub": REAL_E1, "assumptions": ASSUME_COMMON,
        "probes": ["concurrent_pairs", "redeliveries", "deliver_below_frontier", "deliver_with_heads_at_different_heights", "converged_checked"],
        "quick": {"count": 150, "budget_s": 60, "workers": 16},
        "thorough": {"count": 100000, "budget_s": 1500, "workers": 16},
        "text": "Seeded search over replica counts, concurrent histories and delivery schedules on real DefraDB nodes; every merge result and the converged state of all replicas are checked. Sampling, not proof.",
        "note": "Trusted: harness model of commit ancestry (recorded when operations are issued), block copy through the public rootstore, the verif merge hook; toolchain skew go1.26.8 vs 1.23.8.",
    },
    "C02": {
        "engine": "E1", "level": "exploration", "design_ref": "DESIGN.md §5 C02",
        "technique": "deterministic simulation: reference CRDT model (merged-set semantics) evaluated after every single delivery and local operation",
        "rule": E1_RULE, "real_vs_stub": REAL_E1, "assumptions": ASSUME_COMMON,
        "probes": ["concurrent_pairs", "redeliveries", "deliver_below_frontier", "deliver_with_heads_at_different_heights"],
        "quick": {"count": 150, "budget_s": 60, "workers": 16},
        "thorough": {"count": 100000, "budget_s": 1500, "workers": 16},
        "text": "After every delivery (incl. redelivery of heads and arbitrary ancestors) each node's documents are compared with a trivial reference model: counter = sum of merged increments, register in the causally latest writes, delete permanent, ancestors visible.",
        "note": "Trusted: the reference model (set of merged commits closed under harness-recorded ancestry); increments chosen exactly representable.",
    },
    "C03": {
        "engine": "E1", "level": "exploration", "design_ref": "DESIGN.md §5 C03",
        "technique": "deterministic simulation: every commit of every simulated history (linear and merged) read back by cid against the reference model; subscriptions compared with the state at the triggering commit",
        "rule": E1_RULE + "; each run adds up to 40 reads at a commit per node and step", "real_vs_stub": REAL_E1, "assumptions": ASSUME_COMMON,
        "probes": ["timetravel_reads", "timetravel_reads_branching", "subscription_results"],
        "quick": {"count": 60, "budget_s": 70, "workers": 16},
        "thorough": {"count": 100000, "budget_s": 1500, "workers": 16},
        "text": "For every node and every commit of its merged history (shapes produced by the delivery schedule, incl. two-parent commits) the read at that commit must equal the model state of the commit's ancestor set, the ordinary query recorded right after the commit on its writer, and the current query at a single head; subscription results are compared the same way.",
        "note": "Reads at or after a delete commit are not compared (the statement does not say what they show). Trusted: reference model, harness ancestry bookkeeping.",
    },
    "C04": {
        "engine": "E1", "level": "exploration", "design_ref": "DESIGN.md §5 C04",
        "technique": "deterministic simulation: raw-store invariant scan (content addressing, closure, heights, heads = frontier of merged commits per document and per field) after every simulator step",
        "rule": E1_RULE + "; invariants evaluated after every local operation and every delivery", "real_vs_stub": REAL_E1, "assumptions": ASSUME_COMMON,
        "probes": ["dag_scans", "genesis_reproduced", "deliver_with_heads_at_different_heights", "redeliveries"],
        "quick": {"count": 100, "budget_s": 60, "workers": 16},
        "thorough": {"count": 100000, "budget_s": 1500, "workers": 16},
        "text": "After every step the raw blockstore and headstore of the touched node are scanned: each block filed under the hash of its bytes (also checked online on every write), links of everything reachable from heads resolve, height = 1 + max parent height, headstore entries of every document and field = frontier of the merged commits (model) and of the merged field blocks, cross-checked with latestCommits; same genesis on two nodes is the same block.",
        "note": "Frontier of composite commits comes from the harness model; frontier of field commits is computed from the blocks linked by merged composites. Blocks stored but not merged are allowed.",
    },
    "C19": {
        "engine": "E1", "level": "exploration", "design_ref": "DESIGN.md §5 C19",
        "technique": "deterministic simulation: add-field patches and active-version switches interleaved with writes and merges between nodes on different schema versions; before/after dumps + reference model",
        "rule": E1_RULE + "; plus schema steps (patch add field with/without activation, switch active version); non-trivial additionally needs >=1 schema step (counted in schema_patches / schema_switches)",
        "real_vs_stub": REAL_E1, "assumptions": ASSUME_COMMON,
        "probes": ["schema_patches", "schema_switches", "merge_of_field_unknown_to_receiver", "write_of_field_ignored_earlier", "converged_checked"],
        "quick": {"count": 100, "budget_s": 60, "workers": 16},
        "thorough": {"count": 100000, "budget_s": 1500, "workers": 16},
        "text": "Around every patch / version switch the values, ids and commit history of all documents on that node are compared; the reference model keeps being checked under the active version (added fields null, earlier values back after switching forth); merges between nodes on different versions must not fail and nodes must agree on the fields both know.",
        "note": "A field whose write was merged while the receiver's active version lacked it carries no expectation on that receiver (the statement only demands agreement on fields both know). Patches form one linear chain of versions; no lens migrations.",
    },
    "C11": {
        "engine": "E1", "level": "exploration", "design_ref": "DESIGN.md §5 C11",
        "technique": "deterministic simulation: byte monitors on every store write, every update notification and every reply of key-less replicas, over seeded create/update/delivery histories with a simulated key service",
        "rule": E1_RULE + "; documents created with document-level or field-level encryption, every value written to an encrypted field is a unique byte pattern; receivers with and without keys (seeded mask)",
        "real_vs_stub": REAL_E1 + "; key exchange: stub (the harness answers enc-keys-request events from the creator's key store, or refuses)", "assumptions": ASSUME_COMMON,
        "probes": ["writes_scanned", "payloads_scanned", "keys_served", "key_requests_refused", "keys_tracked"],
        "quick": {"count": 150, "budget_s": 60, "workers": 16},
        "thorough": {"count": 100000, "budget_s": 1500, "workers": 16},
        "text": "Every byte written under /db/blocks on any node, every update-notification block, everything a key-less node writes under any prefix and every reply it gives is searched for the unique plaintext patterns of encrypted fields (CBOR and text forms); key bytes must only be written under /db/enc; key-holding nodes are checked against the reference model (read back exactly).",
        "note": "Small integers cannot serve as byte patterns and are not searched; strings and float64 values are. The simulated transport payload of E2 is not part of this check yet.",
    },
    "C05": {
        "engine": "E3", "level": "fault_enumeration", "design_ref": "DESIGN.md §5 C05",
        "technique": "deterministic simulation with storage fault injection: every storage-operation site of a generated API call fails once (all-or-nothing oracle vs. a fault-free twin)",
        "rule": ("for a generated pre-state (0-8 operations, collection with/without secondary, unique, composite indexes, branchable, relation) and one API call "
                 "(22 kinds, round-robin over seeds), the fault-free run on a forked twin yields the list of storage sites (kind, key, occurrence); each distinct site "
                 "fails once (quick tier: at most 120 sites per call, seeded subset). distinct_nontrivial = distinct (call kind, site kind, key class) triples in which the fault actually fired"),
        "real_vs_stub": ("real: internal/db API incl. GraphQL mutations, collection API, index/schema DDL, import, merge; badger in-memory under SimStore; "
                         "stub: storage errors injected at the corekv seam (read/iterator/write/disk-full/commit error/commit conflict), disk = committed-batch log; not run: net, HTTP/CLI, document ACP"),
        "assumptions": ASSUME_COMMON + ["a failing Commit never reaches the base store (a store that reports failure although it committed is not injected)"],
        "probes": ["txn_operations_failed_logically", "fault_read_error", "fault_iterator_error", "fault_write_error", "fault_disk_full", "fault_commit_error", "fault_commit_conflict", "success_despite_fault", "fault_free_call_failed"],
        "quick": {"count": 24, "budget_s": 80, "workers": 16},
        "thorough": {"count": 100000, "budget_s": 1700, "workers": 16},
        "text": "Per call, the site enumeration is complete in the thorough tier (every distinct storage operation of the fault-free execution fails once); over pre-states and call arguments it is seeded sampling. Oracle: error => no new durable batch, unchanged logical dump (documents, commits, heads, index-backed reads, descriptions, introspection), no update notification, and the retry succeeds; success => state and notifications equal the fault-free twin's.",
        "note": "exhaustive is reported false: complete only per call in the thorough tier, sampled in the quick tier and over inputs. Two handle disciplines (fresh / long-lived collection handle). Document ACP not enabled.",
    },
    "C20": {
        "engine": "E3", "level": "exploration", "design_ref": "DESIGN.md §5 C20",
        "technique": "deterministic simulation: event-bus recorders and a GraphQL subscription compared, call by call, with the commits that became durable in the store's committed-batch log; histories with explicit transactions, discards and injected storage faults",
        "rule": ("histories of 5-30 steps on one node: 14 kinds of single and multi-document mutations (GraphQL and collection API), explicit transactions that commit or discard, "
                 "storage faults armed on the n-th get/set/commit/next/... of the next call; plain, branchable, indexed and unique collections; 1-3 bus subscribers plus one filtered GraphQL subscription. "
                 "non-trivial: >=1 notification and (>=1 failed call or >=1 explicit transaction); distinct = hash of the (call kind, #notifications, failed?) sequence"),
        "real_vs_stub": "real: internal/db mutations, txn callbacks, event bus, GraphQL subscription handler; stub: storage faults at the corekv seam, disk = committed-batch log; not run: net (the consumer of the notifications)",
        "assumptions": ASSUME_COMMON,
        "probes": ["notifications", "failed_calls", "explicit_txns", "faults_fired", "subscription_results", "writes_to_another_collection", "txns_committing_one_document_repeatedly", "bursts_with_a_slow_subscriber"],
        "quick": {"count": 60, "budget_s": 60, "workers": 16},
        "thorough": {"count": 100000, "budget_s": 1500, "workers": 16},
        "text": "After every call: the update notifications observed are exactly the document-level (and, for branchable collections, collection-level) commits that became durable during the call, none for failed or discarded work, none before an explicit commit; each carries a cid that is the hash of its bytes and a block readable from the store; all bus subscribers see the same sequence; the filtered GraphQL subscription delivers one non-empty result per committed matching change.",
        "note": "Whether a delete 'matches' a subscription filter is left open (0 or 1 result accepted); results with an empty dataset are not counted as results. Expected subscription matches are computed with a read at the commit (validated separately by C03).",
    },
    "C14": {
        "engine": "E3", "level": "exploration", "design_ref": "DESIGN.md §5 C14",
        "technique": "deterministic simulation: clean restarts and crashes at storage-commit boundaries inside operations (only the committed-batch log survives), compared in lock-step with a never-restarted twin",
        "rule": ("histories of 6-30 operations (20 kinds: document mutations, filtered mutations, index create/drop, schema add/patch, version switch, explicit transactions) on a node X and a twin Y; "
                 "up to 5 restarts of X per history, biased to follow schema / index / sequence-consuming operations: clean close+reopen, or crash right after the c-th commit of the next operation. "
                 "in-memory log replay or an on-disk badger directory. distinct = distinct (operation kind before the restart, restart kind) pairs"),
        "real_vs_stub": "real: DB.initialize / loadSchema / sequences / index and description caches, badger (in-memory via log replay, or on disk); stub: crash = store fenced at a commit boundary, context cancelled, node abandoned without Close; a fourth of the histories run the node with a real net.Peer on the simulated transport (E2 infrastructure): replicators and P2P collections are set and removed, DB+Peer are restarted or crashed; not run: document ACP state",
        "assumptions": ASSUME_COMMON + ["durable = batches whose Commit returned nil, in commit order"],
        "probes": ["clean_restarts", "crashes", "crash_after_commit", "crash_before_commit", "ops_compared_after_restart", "peer_restarts", "writes_routed"],
        "quick": {"count": 12, "budget_s": 70, "workers": 16},
        "thorough": {"count": 100000, "budget_s": 1500, "workers": 16},
        "text": "After every restart and after every later operation the full logical dump (documents incl. deleted, commits, heads, index-backed reads, collection/index/schema descriptions with their identifiers, introspected types) of X must equal Y's, and every later operation must return the same result on both.",
        "note": "Peer part: after every restart GetAllReplicators / GetAllP2PCollections must equal the configured sets, and every later write must be pushed to exactly the replicators configured for its collection (checked on never-restarted nodes too). ACP state is not part of the compared history. An operation whose several commits are cut in the middle by the crash ends the run without verdict (that is C05's question).",
    },
    "C18": {
        "engine": "E3", "level": "fault_enumeration", "design_ref": "DESIGN.md §5 C18",
        "technique": "deterministic simulation with fault injection: BasicImport with every storage site failing once and with the export file torn at structural boundaries and arbitrary offsets; round-trip fidelity asserted on every successful import; restart after import",
        "rule": ("generated data sets (1-5 users with edge-case values of every supported kind, 0-4 books related to users, 0-3 nodes of a self-referencing collection chained to each other; pretty/compact; all collections or a subset). "
                 "Per data set: fault-free import on a forked twin gives the storage sites; each distinct site fails once (quick: at most 60, seeded subset); the file is cut at 12 (thorough 60) seeded positions. "
                 "distinct_nontrivial = distinct (site kind, key class) pairs in which the fault fired, plus the torn-file case; fidelity part is input sampling"),
        "real_vs_stub": "real: BasicExport/BasicImport, document creation, relations, badger in-memory under SimStore, the real file system for the export file (scratch directory under /verif/work); stub: storage faults at the corekv seam, torn file = truncated copy, restart = log replay",
        "assumptions": ASSUME_COMMON,
        "probes": ["imports_checked_for_fidelity", "updates_before_export", "self_references", "two_self_references", "reference_cycles", "documents_with_equal_content", "torn_files", "fault_read_error", "fault_write_error", "fault_disk_full", "fault_iterator_error", "fault_commit_error", "fault_commit_conflict"],
        "quick": {"count": 3, "budget_s": 70, "workers": 16},
        "thorough": {"count": 100000, "budget_s": 1500, "workers": 16},
        "text": "Atomicity and crash clauses are decided by fault enumeration (per import: every storage site, complete in the thorough tier; torn files at sampled positions): a failed import leaves the target exactly as before, a reported success equals the complete import. Fidelity (values of every kind, relations under the recorded id mapping, re-export equivalence, survival of a restart) is asserted on every successful import over sampled data sets.",
        "note": "exhaustive false: complete per import only in the thorough tier, sampled over data sets. JSON-kind numbers are float64 in DefraDB on both sides, so the round trip is compared at that precision.",
    },
    "C15": {
        "engine": "E2", "level": "exploration", "design_ref": "DESIGN.md §5 C15",
        "technique": "deterministic simulation: two real DefraDB nodes with the real net.Peer (replicator, retry loop, push/receive, DAG sync) on a simulated transport and a fake clock; seeded loss, duplication, reordering, time-outs, unreachability, crash/restart, block-fetch failures, schema patch; bounded liveness after faults stop",
        "rule": ("plans of 6-35 steps: writes on A (create/update/delete of <=3 documents), decisions on pending push-log RPCs (deliver one / drop / duplicate / deliver all / deliver last first / leave to time out), B unreachable/reachable, B crash and recovery from its durable log, "
                 "schema patch on both nodes, failing block fetches, clock advances (0.1 s .. retry interval+1 s); retry intervals from 1 s to 600 s; replicator for all or named collections, configured before or after the first writes; a fifth of the plain-collection plans use a @branchable collection, whose collection-level heads must be equal at the end too; "
                 "a fourth of the runs use 'B subscribed to the collection' (pubsub) with duplication/reordering only. non-trivial: >=1 failed push and convergence at the end; distinct = hash of the step-kind sequence actually executed"),
        "real_vs_stub": ("real: net/peer.go, client.go, server.go (processPushlog, access filter), sync_dag.go, p2p_replicator.go, p2p_collection.go incl. NewPeer's reload logic, internal/db merge path via the event bus, badger in-memory under SimStore; "
                         "real but idle: libp2p host, DHT, gossipsub objects (no listen address, no socket); stub: gRPC/libp2p streams, bitswap, gossipsub delivery = SimTransport (in-process; a block is only handed out if its bytes hash to the cid and the serving peer's access filter agrees), "
                         "clock = testing/synctest bubble clock (one clock for all nodes: jumps, no per-node skew), crash = store fenced then torn down, restart = replay of the committed-batch log"),
        "assumptions": ASSUME_COMMON + ["A is not crashed while it owes a delivery (the statement quantifies over B's outages)", "pubsub has no retry, so in the pubsub configuration only outages that lose no message are generated"],
        "probes": ["push_failed_total", "push_timed_out", "push_dropped", "push_duplicated", "b_crashed", "b_unreachable", "fetch_failed_injected", "schema_patched", "runs_converged_after_failed_pushes", "pubsub_delivered", "collection_level_heads_compared"],
        "quick": {"count": 25, "budget_s": 70, "workers": 16},
        "thorough": {"count": 100000, "budget_s": 1500, "workers": 16},
        "text": "Safety at every step: every document B shows is a state A has shown. Bounded liveness: after the last fault, with B reachable and no further writes, within 2*max(retry interval)+60 s of simulated time B's documents equal A's. The bound comes from the configuration the plan chose.",
        "note": "A's replicator status and retry table at the end are recorded as probes, not demanded. Trusted: SimTransport keeps the two guarantees DefraDB relies on (content-verified blocks, access filter consulted).",
    },
    "C12": {
        "engine": "E2", "level": "fault_enumeration", "design_ref": "DESIGN.md §5 C12",
        "technique": "deterministic simulation with a byzantine transport fault: every single-field tampering of every signed commit (and of its signature block) is delivered through the real receive path to a receiver that has not seen the genuine commit",
        "rule": ("histories of 3-8 signed writes (create/update/delete, secp256k1 or ed25519 author). For every commit: VerifySignature with the author's key, another key of the same type and a key of the other type; then 14 tamperings "
                 "(priority, docID, schema version, status, head replaced/dropped/added, link replaced by a forged field block / renamed / dropped, encryption link, signature value / type / identity as a new signature block) "
                 "each checked in memory and pushed to the receiver with the signature attached; finally the genuine commit is pushed and must merge. distinct_nontrivial = distinct (tampering, commit kind) pairs delivered"),
        "real_vs_stub": ("real: signing on write, DB.VerifySignature, net server pushLogHandler -> processPushlog -> syncDAG/loadBlockLinks (VerifyBlockSignature) -> merge via the event bus; "
                         "stub: the RPC and the block exchange (SimTransport; forged blocks are served by a third 'forger' node; blocks are content-verified as bitswap does)"),
        "assumptions": ASSUME_COMMON + ["out of scope as the statement does not cover them: a commit whose signature was stripped, a commit re-signed consistently with another key"],
        "probes": ["signatures_verified", "tampered_pushes", "tampered_pushes_rejected_by_rpc", "genuine_pushes_merged"],
        "quick": {"count": 4, "budget_s": 60, "workers": 16},
        "thorough": {"count": 100000, "budget_s": 1200, "workers": 16},
        "text": "The tampering list is enumerated completely for every commit of every generated history (fault enumeration over the fields of the block and of its signature block); histories and key types are sampled. Oracle: after quiescence the receiver's documents, commits and heads are what they were before the forged push; the genuine commit verifies and merges.",
        "note": "Whether the RPC itself returned an error is recorded, not demanded. Changing only the type label of the signature block is not required to make VerifyBlockSignatureWithKey fail (the statement lists delta, parents and links); it must still not be merged on receipt. exhaustive=false (histories sampled).",
    },
    "C06": {
        "engine": "E4a", "level": "exploration", "design_ref": "DESIGN.md §5 C06",
        "technique": "deterministic simulation: seeded interleavings of the operations of 2-3 explicit transactions and non-transactional calls on one node, checked step by step against a snapshot-isolation reference model",
        "rule": ("2-3 explicit transactions of 1-4 operations each (create, update incl. counter increment, delete, listing, read by id, filtered read, read through an indexed field) plus up to 4 non-transactional operations, "
                 "commit or discard, order-preserving seeded interleaving; plain, branchable and indexed collections. non-trivial: two open transactions (or a transaction and an outside write) modified the same document; distinct = hash of the (actor, operation kind, commit outcome) sequence"),
        "real_vs_stub": "real: DB.NewTxn, Txn.ExecRequest, commit/discard, badger's optimistic conflict detection (in-memory) under SimStore; no stubs besides the disk log; the interleaving is decided at API-call granularity by one driver goroutine (transactions never block each other)",
        "assumptions": ASSUME_COMMON + ["spurious conflicts are allowed (the statement does not forbid them)"],
        "probes": ["commits_ok", "commit_conflicts", "overlapping_modifications", "reads_checked"],
        "quick": {"count": 200, "budget_s": 60, "workers": 16},
        "thorough": {"count": 1000000, "budget_s": 1200, "workers": 16},
        "text": "Every read inside a transaction must equal the committed state at its start overlaid with its own writes; reads outside see only committed state, and after every commit/discard the committed state is compared; a commit may fail only with the conflict error; two overlapping transactions (or a transaction and an outside write) that modified the same document must not both succeed.",
        "note": "Trusted: the reference model (per-transaction copy of the committed map). Concurrency inside one call (goroutines) is C16's subject, not this check's.",
    },
    "C07": {
        "engine": "E5", "level": "exploration", "design_ref": "DESIGN.md §5 C07",
        "technique": "deterministic simulation, differential twin: an indexed node and an otherwise identical node without indexes are driven by one seeded history (local writes, merges of remote commits, index create/drop at arbitrary points, restarts); generated requests are compared after each checkpoint; unique-index oracle from a model of live values",
        "rule": ("index sets of 1-4 indexes from a pool of 15 (single / composite / unique, ascending / descending, on string, int, float, bool, date-time, string array, int array, JSON, counter, relation fields), created before the data or in mid-history, dropped and re-created; "
                 "histories of 6-35 steps; values from edge-case pools (int64 extremes, +-0, 1e300, 5e-324, empty / non-ASCII strings, nanosecond times); 12 generated requests per checkpoint (comparison, membership, like, array and JSON operators, _and/_or, order, limit/offset only with order) plus relation reads. "
                 "distinct_nontrivial = distinct (active index set, operator signature) pairs for which execute-explain shows index fetches on the indexed node (sampled 1 in 4)"),
        "real_vs_stub": "real: index maintenance on local writes and merges, planner index selection, index fetchers/iterators/matchers, join inversion; badger in-memory under SimStore; stub: remote commits delivered by block copy + synchronous merge hook; restart = log replay",
        "assumptions": ASSUME_COMMON + ["request generation is input sampling; what the simulation adds is the history (merges, DDL at arbitrary points, restarts)"],
        "probes": ["requests_compared", "requests_served_from_index", "remote_commits_merged", "indexes_created", "indexes_dropped", "restarts", "unique_rejects"],
        "quick": {"count": 32, "budget_s": 70, "workers": 16},
        "thorough": {"count": 100000, "budget_s": 1500, "workers": 16},
        "text": "Same multiset of rows with and without indexes; with an order clause the same sequence of sort keys (limit/offset compared as sort-key sequences only); a request must not fail only on the indexed node; a unique index rejects a local write exactly when the model says a live document holds the same non-null value (composite: same tuple with every component non-null).",
        "note": "Four known findings are listed in known_findings.txt (array _all, JSON top-level scalars, index on a counter, _in with order); two thirds of the plans avoid those features so that the rest of the space is explored undisturbed. A mismatch found with a compound request is attributed to a single condition when that condition alone reproduces it.",
    },
    "C09": {
        "engine": "E5", "level": "exploration", "design_ref": "DESIGN.md §5 C09",
        "technique": "deterministic simulation: one node queried from both sides of every relation after each step of a seeded link/unlink/delete/merge/index-DDL/restart history, against a relation model (child -> parent map) kept by the harness",
        "rule": ("topologies: one-to-many (User-Book), second hop (Library-Book), one-to-one (Person-Passport), self reference (Node.parent/child); histories of 8-40 steps: create, link, re-link, unlink (null), delete either side, "
                 "remote commits merged in either order, explicit transactions (commit/discard), indexes on the foreign key / on the filtered fields toggled in mid-history, restarts. "
                 "distinct_nontrivial = distinct (step kind, active index set) pairs at which the full set of both-side queries agreed with the model"),
        "real_vs_stub": "real: planner joins (typeJoinOne/Many, inversion through indexes), relation validation on save, index maintenance, merges; stub: remote commits by block copy + synchronous merge hook, restart = log replay",
        "assumptions": ASSUME_COMMON,
        "probes": ["checkpoints", "queries", "remote_merges", "one_to_one_rejects"],
        "quick": {"count": 10, "budget_s": 70, "workers": 16},
        "thorough": {"count": 100000, "budget_s": 1500, "workers": 16},
        "text": "After every step: Parent{children} == model == Child{parent} == Child(filter:{parent_id}); _count through the relation equals the listed children; filters through the relation (parent by child field, child by parent field, with order) agree with the model from both sides, with and without indexes; both sides of the one-to-one and self-referencing relations agree and no target is referenced by two live documents after a local write (a write that would do so must be rejected).",
        "note": "A child whose relation field points to a deleted parent must appear under no parent. Remote merges are not subject to the one-to-one clause (the statement speaks of local writes).",
    },
    "C10": {
        "engine": "E5", "level": "exploration", "design_ref": "DESIGN.md §5 C10",
        "technique": "deterministic simulation, differential twin: a real node with document ACP vs. a twin that never receives the private documents, over seeded create/update/delete/grant/revoke histories; the reader's view is compared with the owner's view with the hidden documents filtered out explicitly",
        "rule": ("one policy, identities owner / reader / stranger / anonymous; histories of 6-30 steps: public and private documents created, updated, deleted, reader relationship granted and revoked, update/delete attempts without permission (by id and by filter). "
                 "After every step ~20 requests per restricted identity: listing, showDeleted, filters (incl. indexed fields and _or), order, limit/offset, count/sum/avg/max/min, grouping, commits (all / ordered+limited / by document), latestCommits, reads by id and at a commit of private documents. "
                 "distinct_nontrivial = distinct (request kind, identity) pairs for which both sides answered and agreed"),
        "real_vs_stub": "real: local document ACP engine (acp_core/zanzi, in memory), permissioned fetcher, explicit permission checks on update/delete, commits DAG scan, planner; badger in-memory under SimStore; twin: second real node given only the public operations; no network (the E2 access-filter probe fetch_refused_by_access_filter is separate)",
        "assumptions": ASSUME_COMMON + ["documents created without an identity are public; signing is off so that public commits have identical cids on both nodes"],
        "probes": ["subscription_messages_compared", "requests_compared", "grants", "revokes", "attacks", "checkpoints"],
        "quick": {"count": 2, "budget_s": 80, "workers": 16},
        "thorough": {"count": 100000, "budget_s": 1700, "workers": 16},
        "text": "For stranger and anonymous requesters every request must return on the real node exactly what it returns on the database that never contained the private documents (rows as multisets, ordered requests as sequences, commits verbatim). For the reader, whose visibility changes with grants and revocations, each request must equal the owner's result with the currently hidden documents excluded by an explicit _docID filter. Write attempts without permission must leave every private document unchanged.",
        "note": "The incremental twin cannot follow revocations, hence the second oracle for the reader (same node, owner + explicit exclusion). Restarts of an ACP node and subscriptions are not part of this check; the ACP engine dominates the cost (about 2 s per history).",
    },
    "C16": {
        "engine": "E4b", "level": "exploration", "design_ref": "DESIGN.md §5 C16", "race": True, "race_replay_caveat": True,
        "technique": "deterministic simulation: seeded goroutine scheduler at storage-operation granularity (one task released at a time, futex hand-off that is invisible to the race detector), Go race detector, porcupine linearizability check against a sequential per-document model",
        "rule": ("2-4 task goroutines with 1-3 calls each on one node (update with counter increment, read, delete, create, filtered update, index create+drop, incoming merge with the retry-on-conflict loop); every store operation is a yield point, "
                 "the task to run next is drawn from the plan's choice sequence; a fourth of the runs let all tasks share one NewConcurrentTxn. non-trivial: >=1 successful call and >20 scheduling decisions; distinct = hash of the release sequence"),
        "real_vs_stub": "real: DB API, planner, txn layer, badger in-memory (race-instrumented build of everything); the scheduler parks real goroutines at intercepted store operations - who runs is decided by the plan, never by the Go scheduler; not run: net.Peer (its unsynchronised replicator map is not reached by this check)",
        "assumptions": ASSUME_COMMON + ["the order of a task's own storage operations depends on Go map iteration inside DefraDB and is not under the seed's control; the schedule (which task runs at each step) and the calls' results are",
                                        "a race report is genuine whenever it appears, but whether the detector still remembers the first access when the second arrives is not decided by the seed: replay repeats the schedule up to 20 times"],
        "probes": ["sched_steps", "calls_ok", "calls_conflict", "histories_linearizable", "kept_indexes_checked"],
        "quick": {"count": 20, "budget_s": 90, "workers": 16},
        "thorough": {"count": 1000000, "budget_s": 1500, "workers": 16},
        "text": "No data race report with a frame in DefraDB or its dependencies, no panic, and the recorded history (invoke/return stamped with the scheduler's event counter, final reads appended) is linearizable w.r.t. a sequential per-document model in which a call that reported a conflict is a no-op and a successful call has its effect - so counters end at the sum of the successful increments.",
        "note": "porcupine verdict Unknown (time-out) is counted as inconclusive, never reported. Races whose stacks contain only simulator frames are a harness defect (exit 2). Known findings: lost increments inside a shared concurrent transaction; lazy initialisation race in graphql-go input types.",
    },
}
