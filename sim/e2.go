package verifsim

import (
	"context"
	"crypto/ed25519"
	"crypto/sha256"
	"encoding/binary"
	"errors"
	"fmt"
	"hash/fnv"
	"sort"
	"sync"
	"testing/synctest"
	"time"

	"github.com/ipfs/boxo/exchange"
	blocks "github.com/ipfs/go-block-format"
	"github.com/ipfs/go-cid"
	ipld "github.com/ipfs/go-ipld-format"
	"github.com/libp2p/go-libp2p/core/peer"

	"github.com/sourcenetwork/defradb/acp/dac"
	"github.com/sourcenetwork/defradb/internal/datastore"
	defranet "github.com/sourcenetwork/defradb/net"
	netConfig "github.com/sourcenetwork/defradb/net/config"
)

// E2 — real net.Peer code on a simulated transport and clock. See DESIGN.md §4.

type e2Node struct {
	*SimNode
	Peer      *defranet.Peer
	PID       peer.ID
	key       []byte
	intervals []time.Duration
	pubsub    bool
	idx       int
}

type pendingRPC struct {
	seq     int
	from    peer.ID
	to      peer.ID
	req     defranet.SimPushLog
	reply   chan error
	done    bool
	created time.Time
}

func (p *pendingRPC) sortKey() string {
	c, _ := cid.Cast(p.req.CID)
	return fmt.Sprintf("%s|%s|%s|%s", p.from, p.to, p.req.DocID, c)
}

type simNet struct {
	mu      sync.Mutex
	nodes   map[peer.ID]*e2Node
	order   []peer.ID
	pending []*pendingRPC
	seq     int
	down    map[peer.ID]bool
	// fetchFail[node] = salt (>0) of the injected fetch failures of that node, see GetBlock
	fetchFail   map[peer.ID]int
	fetchFailed map[string]bool
	stats       map[string]int
	// tamper, when set, may rewrite a request before it is handed to the receiver (C12)
	OnPayload func(kind string, from, to peer.ID, payload []byte)
	pubsubQ   []pubsubMsg
	pushSeen  [][2]string // (receiver, docID) of every push-log request issued
}

type pubsubMsg struct {
	from  peer.ID
	topic string
	data  []byte
}

func newSimNet() *simNet {
	return &simNet{nodes: map[peer.ID]*e2Node{}, down: map[peer.ID]bool{}, fetchFail: map[peer.ID]int{}, stats: map[string]int{}}
}

var errSimUnreachable = errors.New("verifsim: peer unreachable")
var errSimReset = errors.New("verifsim: connection reset")

func (n *simNet) PushLog(ctx context.Context, from, to peer.ID, req defranet.SimPushLog) error {
	n.mu.Lock()
	if n.OnPayload != nil {
		n.OnPayload("pushlog", from, to, req.Block)
	}
	n.pushSeen = append(n.pushSeen, [2]string{to.String(), req.DocID})
	if n.down[to] || n.down[from] || n.nodes[to] == nil {
		n.stats["push_refused_unreachable"]++
		n.mu.Unlock()
		return errSimUnreachable
	}
	n.seq++
	p := &pendingRPC{seq: n.seq, from: from, to: to, req: req, reply: make(chan error, 4), created: time.Now()}
	n.pending = append(n.pending, p)
	n.stats["push_sent"]++
	n.mu.Unlock()
	select {
	case err := <-p.reply:
		return err
	case <-ctx.Done():
		n.mu.Lock()
		p.done = true
		n.stats["push_timed_out"]++
		n.mu.Unlock()
		return ctx.Err()
	}
}

// pendingSorted returns the undecided RPCs in canonical order.
func (n *simNet) pendingSorted() []*pendingRPC {
	n.mu.Lock()
	defer n.mu.Unlock()
	var out []*pendingRPC
	for _, p := range n.pending {
		if !p.done {
			out = append(out, p)
		}
	}
	sort.SliceStable(out, func(i, j int) bool { return out[i].sortKey() < out[j].sortKey() })
	return out
}

func (n *simNet) finish(p *pendingRPC) {
	n.mu.Lock()
	p.done = true
	var keep []*pendingRPC
	for _, q := range n.pending {
		if !q.done {
			keep = append(keep, q)
		}
	}
	n.pending = keep
	n.mu.Unlock()
}

// deliver hands the request to the receiver; the reply reaches the sender when the handler returns.
func (n *simNet) deliver(p *pendingRPC, answer bool) {
	n.mu.Lock()
	target := n.nodes[p.to]
	unreachable := n.down[p.to] || target == nil
	n.mu.Unlock()
	if unreachable {
		n.finish(p)
		p.reply <- errSimUnreachable
		return
	}
	if answer {
		n.finish(p)
	}
	n.mu.Lock()
	n.stats["push_delivered"]++
	n.mu.Unlock()
	go func() {
		err := target.Peer.SimHandlePushLog(target.ctx, p.from, p.req)
		if answer {
			p.reply <- err
		}
	}()
	// one delivery at a time: two requests handled at once on the receiver (a document commit and the
	// collection-level commit of the same write) would race in an order the seed does not decide
	synctest.Wait()
}

func (n *simNet) drop(p *pendingRPC) {
	n.finish(p)
	n.mu.Lock()
	n.stats["push_dropped"]++
	n.mu.Unlock()
	p.reply <- errSimReset
}

func (n *simNet) Publish(ctx context.Context, from peer.ID, topic string, data []byte) error {
	n.mu.Lock()
	if n.OnPayload != nil {
		n.OnPayload("pubsub", from, "", data)
	}
	n.pubsubQ = append(n.pubsubQ, pubsubMsg{from: from, topic: topic, data: data})
	n.stats["pubsub_published"]++
	n.mu.Unlock()
	return nil
}

// flushPubSub delivers queued pubsub messages to subscribed, reachable peers. sel (from the
// plan step) decides reordering and duplication.
func (n *simNet) flushPubSub(sel int) {
	n.mu.Lock()
	q := n.pubsubQ
	n.pubsubQ = nil
	n.mu.Unlock()
	if len(q) > 1 && sel%3 == 1 {
		// reversed order
		for i, j := 0, len(q)-1; i < j; i, j = i+1, j-1 {
			q[i], q[j] = q[j], q[i]
		}
		n.mu.Lock()
		n.stats["pubsub_reordered"]++
		n.mu.Unlock()
	}
	if len(q) > 0 && sel%4 == 2 {
		q = append(q, q[0])
		n.mu.Lock()
		n.stats["pubsub_duplicated"]++
		n.mu.Unlock()
	}
	for _, m := range q {
		for _, pid := range n.order {
			n.mu.Lock()
			node := n.nodes[pid]
			unreachable := n.down[pid] || n.down[m.from] || node == nil
			n.mu.Unlock()
			if pid == m.from || unreachable {
				continue
			}
			sub := false
			for _, t := range node.Peer.SimSubscribedTopics() {
				if t == m.topic {
					sub = true
				}
			}
			if !sub {
				continue
			}
			n.mu.Lock()
			n.stats["pubsub_delivered"]++
			n.mu.Unlock()
			// delivered one at a time, in the decided order
			_ = node.Peer.SimHandlePubSub(m.from, m.topic, m.data)
		}
	}
}

// ---- block exchange --------------------------------------------------------------

type simExchange struct {
	net   *simNet
	owner *defranet.Peer
}

func (n *simNet) Exchange(p *defranet.Peer) exchange.Interface { return &simExchange{net: n, owner: p} }

func (e *simExchange) GetBlock(ctx context.Context, c cid.Cid) (blocks.Block, error) {
	me := e.owner.PeerID()
	e.net.mu.Lock()
	if salt := e.net.fetchFail[me]; salt > 0 {
		// Injected fetch failures are a function of the block, not of the order in which the fetches of
		// concurrent sync goroutines arrive: every third block (by a salted hash) fails its first fetch.
		h := fnv.New32a()
		h.Write(c.Bytes())
		h.Write([]byte{byte(salt), byte(salt >> 8)})
		key := me.String() + "/" + c.KeyString()
		if h.Sum32()%3 == 0 && !e.net.fetchFailed[key] {
			if e.net.fetchFailed == nil {
				e.net.fetchFailed = map[string]bool{}
			}
			e.net.fetchFailed[key] = true
			e.net.stats["fetch_failed_injected"]++
			e.net.mu.Unlock()
			return nil, ipld.ErrNotFound{Cid: c}
		}
	}
	if e.net.down[me] {
		e.net.mu.Unlock()
		return nil, ipld.ErrNotFound{Cid: c}
	}
	var cands []*e2Node
	for _, pid := range e.net.order {
		if pid != me && !e.net.down[pid] && e.net.nodes[pid] != nil {
			cands = append(cands, e.net.nodes[pid])
		}
	}
	e.net.mu.Unlock()
	for _, nd := range cands {
		b, err := datastore.BlockstoreFrom(nd.DB.Rootstore()).Get(ctx, c)
		if err != nil {
			continue
		}
		// the serving peer's access filter, exactly where bitswap's WithPeerBlockRequestFilter sits
		if !nd.Peer.SimHasAccess(me, c) {
			e.net.mu.Lock()
			e.net.stats["fetch_refused_by_access_filter"]++
			e.net.mu.Unlock()
			continue
		}
		// like bitswap: only a block whose bytes hash to the requested cid is handed out
		sum, err := c.Prefix().Sum(b.RawData())
		if err != nil || !sum.Equals(c) {
			continue
		}
		e.net.mu.Lock()
		e.net.stats["blocks_fetched"]++
		if e.net.OnPayload != nil {
			e.net.OnPayload("block", nd.PID, me, b.RawData())
		}
		e.net.mu.Unlock()
		return b, nil
	}
	e.net.mu.Lock()
	e.net.stats["fetch_not_found"]++
	e.net.mu.Unlock()
	return nil, ipld.ErrNotFound{Cid: c}
}

func (e *simExchange) GetBlocks(ctx context.Context, cs []cid.Cid) (<-chan blocks.Block, error) {
	ch := make(chan blocks.Block, len(cs))
	for _, c := range cs {
		if b, err := e.GetBlock(ctx, c); err == nil {
			ch <- b
		}
	}
	close(ch)
	return ch, nil
}

func (e *simExchange) NotifyNewBlocks(ctx context.Context, bs ...blocks.Block) error { return nil }
func (e *simExchange) Close() error                                                  { return nil }

// ---- nodes ---------------------------------------------------------------------------

func seededPeerKey(seed int64, label string) []byte {
	h := sha256.New()
	var b [8]byte
	binary.LittleEndian.PutUint64(b[:], uint64(seed))
	h.Write(b[:])
	h.Write([]byte("peer:" + label))
	return ed25519.NewKeyFromSeed(h.Sum(nil))
}

// startE2Node starts DB + Peer on a store.
func (n *simNet) startE2Node(ctx context.Context, idx int, st *SimStore, key []byte, intervals []time.Duration, pubsub bool, opts NodeOpts) (*e2Node, error) {
	sn, err := startNode(ctx, fmt.Sprintf("n%d", idx), st, opts)
	if err != nil {
		return nil, err
	}
	defranet.SimNet = n
	popts := []netConfig.NodeOpt{
		netConfig.WithListenAddresses(),
		netConfig.WithPrivateKey(key),
		netConfig.WithEnablePubSub(pubsub),
		netConfig.WithEnableRelay(false),
		netConfig.WithRetryInterval(intervals),
	}
	p, err := defranet.NewPeer(sn.ctx, sn.DB.Events(), dac.NoDocumentACP, sn.DB, popts...)
	if err != nil {
		sn.Close()
		return nil, fmt.Errorf("NewPeer: %w", err)
	}
	en := &e2Node{SimNode: sn, Peer: p, PID: p.PeerID(), key: key, intervals: intervals, pubsub: pubsub, idx: idx}
	n.mu.Lock()
	n.nodes[en.PID] = en
	found := false
	for _, x := range n.order {
		if x == en.PID {
			found = true
		}
	}
	if !found {
		n.order = append(n.order, en.PID)
		sort.Slice(n.order, func(i, j int) bool { return n.order[i] < n.order[j] })
	}
	n.mu.Unlock()
	return en, nil
}

func (en *e2Node) shutdown() {
	en.Peer.Close()
	en.SimNode.Close()
}

// crash: nothing more becomes durable, then the process is torn down.
func (en *e2Node) crash() {
	en.Store.Fence()
	en.Crashed = true
	en.Peer.Close()
	en.DB.Close()
	en.stop()
	if en.subDone != nil {
		<-en.subDone
	}
	en.Store.CloseBase()
}
