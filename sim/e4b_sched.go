package verifsim

import (
	"fmt"
	"runtime"
	"strings"
	"syscall"
	"time"
	"unsafe"
)

// E4b — seeded goroutine scheduler at storage-operation granularity.
//
// Every SimStore operation of a task goroutine is a yield point: the task parks
// and the scheduler releases exactly one parked task, chosen by the plan. The
// hand-off uses a raw futex on words that are only touched from //go:norace
// functions, so it creates no happens-before edge the race detector could see:
// the execution is serial and repeatable, and unsynchronised accesses between
// tasks are still reported.

const (
	tsRunning = iota
	tsParked
	tsFinished
	tsBlocked
)

type schedTask struct {
	id    int
	gid   uint64
	word  int32 // futex word: 1 = released
	state int32 // written by the task itself (and by the scheduler only while the task is parked)
	// blocked is written by the scheduler only: the task was seen waiting for a lock held by a parked task.
	// The task may be running again at any moment, so the scheduler must never write its state.
	blocked bool
	site    string
	steps   int
}

type scheduler struct {
	tasks      []*schedTask
	sword      int32 // futex word: changes whenever a task parks or finishes
	trace      []byte
	foreign    int
	plan       []int // choice sequence from the plan; consumed cyclically
	pos        int
	maxStep    int
	aborted    bool
	overBudget bool
	clock      int64
	dumpBuf    []byte
	stuck      string
}

func futexWait(addr *int32, val int32, timeoutNs int64) {
	var ts *syscall.Timespec
	if timeoutNs > 0 {
		t := syscall.NsecToTimespec(timeoutNs)
		ts = &t
	}
	// FUTEX_WAIT = 0
	_, _, _ = syscall.Syscall6(syscall.SYS_FUTEX, uintptr(unsafe.Pointer(addr)), 0, uintptr(val), uintptr(unsafe.Pointer(ts)), 0, 0)
}

func futexWake(addr *int32) {
	// FUTEX_WAKE = 1
	_, _, _ = syscall.Syscall6(syscall.SYS_FUTEX, uintptr(unsafe.Pointer(addr)), 1, 1<<30, 0, 0, 0)
}

//go:norace
func curGID() uint64 {
	var buf [40]byte
	n := runtime.Stack(buf[:], false)
	// "goroutine 123 ["
	var id uint64
	for i := 10; i < n; i++ {
		c := buf[i]
		if c < '0' || c > '9' {
			break
		}
		id = id*10 + uint64(c-'0')
	}
	return id
}

//go:norace
func (s *scheduler) lookup(gid uint64) *schedTask {
	for _, t := range s.tasks {
		if t.gid == gid {
			return t
		}
	}
	return nil
}

// yield is installed as SimStore.Yield.
//
//go:norace
func (s *scheduler) yield(site Site) {
	if s.aborted {
		return
	}
	t := s.lookup(curGID())
	if t == nil {
		s.foreign++
		return
	}
	s.park(t, site.Kind)
}

//go:norace
func (s *scheduler) park(t *schedTask, site string) {
	t.site = site
	t.state = tsParked
	s.sword++
	futexWake(&s.sword)
	for t.word == 0 {
		if s.aborted {
			break
		}
		futexWait(&t.word, 0, int64(20*time.Millisecond))
	}
	t.word = 0
	t.state = tsRunning
}

//go:norace
func (s *scheduler) finish(t *schedTask) {
	t.state = tsFinished
	s.sword++
	futexWake(&s.sword)
}

//go:norace
func (s *scheduler) release(t *schedTask) {
	t.steps++
	t.state = tsRunning
	t.word = 1
	futexWake(&t.word)
}

//go:norace
func eff(t *schedTask) int32 {
	st := t.state
	if st == tsRunning && t.blocked {
		return tsBlocked
	}
	return st
}

//go:norace
func (s *scheduler) snapshot() (running, parked, finished, blocked int) {
	for _, t := range s.tasks {
		switch eff(t) {
		case tsRunning:
			running++
		case tsParked:
			parked++
		case tsFinished:
			finished++
		case tsBlocked:
			blocked++
		}
	}
	return
}

// goroutineBlocked reports whether the goroutine waits for the mutex of a shared concurrent
// transaction (the only lock in DefraDB that is held across a storage operation, i.e. that a parked
// task can hold). Any other wait (badger's writer, the event bus) ends by itself and is waited for.
func (s *scheduler) goroutineBlocked(gid uint64) (bool, string) {
	if s.dumpBuf == nil {
		s.dumpBuf = make([]byte, 1<<20)
	}
	buf := s.dumpBuf
	n := runtime.Stack(buf, true)
	head := fmt.Sprintf("goroutine %d [", gid)
	dump := string(buf[:n])
	i := strings.Index(dump, head)
	if i < 0 {
		return false, "gone"
	}
	rest := dump[i+len(head):]
	if e := strings.Index(rest, "\n\n"); e >= 0 {
		rest = rest[:e]
	}
	j := strings.Index(rest, "]")
	if j < 0 {
		return false, ""
	}
	st := rest[:j]
	if strings.HasPrefix(st, "sync.Mutex.Lock") && strings.Contains(rest, "datastore.(*concurrentTxn)") {
		return true, st
	}
	return false, st
}

// stuckReport describes the task goroutines that neither parked nor finished (for the watchdog message).
func (s *scheduler) stuckReport() string {
	buf := make([]byte, 4<<20)
	n := runtime.Stack(buf, true)
	dump := string(buf[:n])
	var out []string
	for _, t := range s.tasks {
		head := fmt.Sprintf("goroutine %d [", t.gid)
		i := strings.Index(dump, head)
		if i < 0 {
			out = append(out, fmt.Sprintf("task %d state=%d: goroutine gone", t.id, t.state))
			continue
		}
		rest := dump[i:]
		if e := strings.Index(rest, "\n\n"); e >= 0 {
			rest = rest[:e]
		}
		lines := strings.Split(rest, "\n")
		var fr []string
		for _, l := range lines[1:] {
			if !strings.HasPrefix(l, "\t") && len(fr) < 14 {
				if k := strings.Index(l, "("); k > 0 {
					l = l[:k]
				}
				fr = append(fr, l[strings.LastIndex(l, "/")+1:])
			}
		}
		out = append(out, fmt.Sprintf("task %d state=%d %s: %s", t.id, t.state, lines[0], strings.Join(fr, " < ")))
	}
	return strings.Join(out, " || ")
}

// abort gives up control: yields become no-ops and every parked task is released.
//
//go:norace
func (s *scheduler) abort() {
	s.aborted = true
	for _, x := range s.tasks {
		if x.state == tsParked {
			s.release(x)
		}
	}
}

// run drives the tasks until all have finished. Returns false on watchdog expiry.
//
//go:norace
func (s *scheduler) run() bool {
	lastChange := time.Now()
	for {
		seen := s.sword
		running, parked, finished, blocked := s.snapshot()
		if finished == len(s.tasks) {
			return true
		}
		if running > 0 {
			// a released task has not parked yet: wait for it, or find out that it is blocked on a lock
			futexWait(&s.sword, seen, int64(2*time.Millisecond))
			if s.sword != seen {
				lastChange = time.Now()
				continue
			}
			if time.Since(lastChange) > 4*time.Millisecond {
				for _, t := range s.tasks {
					if eff(t) == tsRunning {
						if b, _ := s.goroutineBlocked(t.gid); b {
							t.blocked = true
							s.trace = append(s.trace, 'B', byte('0'+t.id))
							lastChange = time.Now()
						}
					}
				}
			}
			if time.Since(lastChange) > 60*time.Second {
				s.stuck = s.stuckReport()
				s.abort()
				return false
			}
			continue
		}
		if parked == 0 {
			if blocked > 0 {
				// everything is blocked: give blocked tasks a chance to have moved on
				for _, t := range s.tasks {
					t.blocked = false
				}
				if time.Since(lastChange) > 60*time.Second {
					s.stuck = s.stuckReport()
					s.abort()
					return false
				}
				time.Sleep(time.Millisecond)
				continue
			}
			return true
		}
		// choose one parked task by the plan
		var cands []*schedTask
		for _, t := range s.tasks {
			if t.state == tsParked {
				cands = append(cands, t)
			}
		}
		c := 0
		if len(s.plan) > 0 {
			c = s.plan[s.pos%len(s.plan)]
		}
		s.pos++
		t := cands[mod(c, len(cands))]
		s.trace = append(s.trace, byte('0'+t.id), t.site[0])
		if s.pos > s.maxStep {
			// let everything run to completion without further control
			s.overBudget = true
			s.abort()
			lastChange = time.Now()
			continue
		}
		// blocked tasks may be able to proceed once this one moves: treat them as running again
		for _, x := range s.tasks {
			x.blocked = false
		}
		s.release(t)
		lastChange = time.Now()
	}
}
