package verifsim

import (
	"runtime"
	"strings"
)

// panicSite names the innermost DefraDB frame of a recovered panic.
func panicSite() string {
	var pcs [48]uintptr
	n := runtime.Callers(3, pcs[:])
	frames := runtime.CallersFrames(pcs[:n])
	for {
		f, more := frames.Next()
		if strings.Contains(f.Function, "sourcenetwork/defradb/") && !strings.Contains(f.Function, "verifsim") {
			i := strings.LastIndex(f.Function, "/")
			return f.Function[i+1:]
		}
		if !more {
			break
		}
	}
	return "?"
}
