package verifsim

import (
	"runtime"
	"strings"

	"github.com/sourcenetwork/defradb/client"
)

// panicSite names the innermost DefraDB frame of a recovered panic.
func panicSite() string {
	var pcs [48]uintptr
	n := runtime.Callers(3, pcs[:])
	frames := runtime.CallersFrames(pcs[:n])
	for {
		f, more := frames.Next()
		if strings.Contains(f.Function, "sourcenetwork/defradb/") && !strings.Contains(f.Function, "verifsim") {
			i := strings.LastIndex(f.Function, "/")
			return f.Function[i+1:]
		}
		if !more {
			break
		}
	}
	return "?"
}

// defraFrames: the three innermost DefraDB frames of the caller (creation site of an iterator).
func defraFrames() string {
	var pcs [40]uintptr
	n := runtime.Callers(3, pcs[:])
	frames := runtime.CallersFrames(pcs[:n])
	var out []string
	for {
		f, more := frames.Next()
		if strings.Contains(f.Function, "sourcenetwork/defradb/") && !strings.Contains(f.Function, "verifsim") {
			i := strings.LastIndex(f.Function, "/")
			out = append(out, f.Function[i+1:])
			if len(out) == 4 {
				break
			}
		}
		if !more {
			break
		}
	}
	return strings.Join(out, " <- ")
}

func clientFetchAll() client.CollectionFetchOptions { return client.CollectionFetchOptions{} }
