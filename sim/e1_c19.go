package verifsim

import (
	"fmt"
	"sort"
	"strconv"
	"strings"
	"testing/synctest"

	"github.com/sourcenetwork/immutable"
	"github.com/sourcenetwork/lens/host-go/config/model"

	"github.com/sourcenetwork/defradb/client"
)

// versionExtras: the extra fields of a version key ("" root, "0,1", "1" ...), in the order they were added.
func versionExtras(key string) []fieldSpec {
	var fs []fieldSpec
	if key == "" {
		return fs
	}
	for _, p := range strings.Split(key, ",") {
		k, _ := strconv.Atoi(p)
		fs = append(fs, extraFields[k])
	}
	return fs
}

func versionFields(key string) []fieldSpec {
	return append(append([]fieldSpec{}, userFields...), versionExtras(key)...)
}

// nodeFields: the fields the node's active schema version has.
func (r *e1Run) nodeFields(node int) []fieldSpec {
	if node < len(r.nodeActive) {
		return versionFields(r.nodeActive[node])
	}
	return append([]fieldSpec{}, userFields...)
}

// hiddenField: a field for which the node carries no expectation, because a
// commit writing it was merged while the node's active version did not have it
// or any other version it held (the merge legitimately ignores fields unknown to the
// local versions).
func (r *e1Run) hiddenField(node, slot int, f string) bool {
	return r.tainted[fmt.Sprintf("%d/%d/%s", node, slot, f)]
}

func (r *e1Run) taintOnMerge(node int, newly map[int]bool) {
	have := map[string]bool{}
	for _, f := range r.nodeFields(node) {
		have[f.Name] = true
	}
	if node < len(r.nodeKnown) {
		// a field of a version the node holds without it being active is merged too
		for key := range r.nodeKnown[node] {
			for _, f := range versionFields(key) {
				have[f.Name] = true
			}
		}
	}
	for c := range newly {
		mc := r.commits[c]
		for f := range mc.Writes {
			if !have[f] {
				if r.tainted == nil {
					r.tainted = map[string]bool{}
				}
				r.tainted[fmt.Sprintf("%d/%d/%s", node, mc.Doc, f)] = true
				r.res.Stats["merge_of_field_unknown_to_receiver"]++
			}
		}
	}
}

// projectCommon keeps the fields every node's active version has and that are
// untainted on every node.
func (r *e1Run) projectCommon(m map[string]map[string]any) map[string]map[string]any {
	count := map[string]int{}
	for n := range r.nodes {
		for _, f := range r.nodeFields(n) {
			count[f.Name]++
		}
	}
	var common []fieldSpec
	for _, f := range append(append([]fieldSpec{}, userFields...), extraFields...) {
		if count[f.Name] == len(r.nodes) {
			common = append(common, f)
		}
	}
	out := map[string]map[string]any{}
	for id, row := range m {
		nr := map[string]any{"_docID": row["_docID"], "_deleted": row["_deleted"]}
		slot := r.slotOf[id]
		for _, f := range common {
			hidden := false
			for n := range r.nodes {
				if r.hiddenField(n, slot, f.Name) {
					hidden = true
				}
			}
			if !hidden {
				nr[f.Name] = row[f.Name]
			}
		}
		out[id] = nr
	}
	return out
}

// snapshotForSchema: values, ids and commit history of all documents as seen by the node.
// known: the versions the node knew before the schema change under examination.
func (r *e1Run) snapshotForSchema(node int, fields []fieldSpec, known map[string]bool) (string, string) {
	sel := "_docID _deleted"
	for _, f := range fields {
		sel += " " + f.Name
	}
	data, errs := r.nodes[node].GQL("query { User(showDeleted: true) { " + sel + " } }")
	if len(errs) > 0 {
		return "", strings.Join(errs, ";")
	}
	docs := canon(sortRows(rows(data, "User"), "_docID"))
	var hist []string
	for slot := 0; slot < r.p.cfg("docs", 1); slot++ {
		id, ok := r.docIDs[slot]
		if !ok || len(r.merged[node][slot]) == 0 {
			continue
		}
		// the commits query resolves each commit's schema version: only asked where the node knows them all
		knowsAll := true
		for c := range r.merged[node][slot] {
			mc := r.commits[c]
			if mc.Origin != node && !known[r.versionIDOf(mc)] {
				knowsAll = false
			}
		}
		if !knowsAll {
			continue
		}
		cd, cerrs := r.nodes[node].GQL(fmt.Sprintf(`query { commits(docID: %q) { cid height fieldName } }`, id))
		if len(cerrs) > 0 {
			return "", "commits: " + strings.Join(cerrs, ";")
		}
		hist = append(hist, canon(sortRows(rows(cd, "commits"), "cid")))
	}
	return docs + "|" + strings.Join(hist, "|"), ""
}

// versionIDOf: the schema version id the commit was written under.
func (r *e1Run) versionIDOf(mc *mCommit) string {
	if mc.Origin < len(r.nodeKnown) {
		return r.nodeKnown[mc.Origin][mc.VerKey]
	}
	return ""
}

func fieldNames(fs []fieldSpec) map[string]bool {
	m := map[string]bool{}
	for _, f := range fs {
		m[f.Name] = true
	}
	return m
}

func (r *e1Run) doSchema(step, node, kind, arg int) {
	nd := r.nodes[node]
	before := r.nodeFields(node)
	knownBefore := map[string]bool{}
	for _, vid := range r.nodeKnown[node] {
		knownBefore[vid] = true
	}
	active := r.nodeActive[node]
	what := ""
	common := before // the fields both the old and the new active version have
	var apply func() bool
	switch mod(kind, 3) {
	case 0, 1:
		// add the next field to the ACTIVE version; if that is not the latest one, the versions branch
		if r.nodeNext[node] >= len(extraFields) {
			r.res.logf("step %d schema patch skipped on n%d", step, node)
			return
		}
		k := r.nodeNext[node]
		activate := mod(kind, 3) == 0
		newKey := strconv.Itoa(k)
		if active != "" {
			newKey = active + "," + newKey
		}
		what = fmt.Sprintf("patch add %s to [%s] activate=%v", extraFields[k].Name, active, activate)
		apply = func() bool {
			patch := fmt.Sprintf(`[{"op":"add","path":"/User/Fields/-","value":{"Name":%q,"Kind":%d}}]`, extraFields[k].Name, extraKinds[k])
			if e := nd.DB.PatchSchema(nd.reqCtx(), patch, immutable.None[model.Lens](), activate); e != nil {
				r.res.violate("C19", "patch-failed", "", step, "node %d add field %s: %v", node, extraFields[k].Name, e)
				return false
			}
			r.nodeNext[node]++
			// learn the id of the new version: the one whose fields are exactly those of newKey
			ss, e := nd.DB.GetSchemas(nd.reqCtx(), client.SchemaFetchOptions{Name: immutable.Some("User")})
			if e != nil {
				r.res.HarnessErr = "GetSchemas: " + e.Error()
				return false
			}
			want := fieldNames(versionFields(newKey))
			var vid string
			for _, sd := range ss {
				if knownBefore[sd.VersionID] {
					continue
				}
				names := map[string]bool{}
				for _, f := range sd.Fields {
					if f.Name != "_docID" {
						names[f.Name] = true
					}
				}
				if canon(sortedKeys(names)) == canon(sortedKeys(want)) {
					vid = sd.VersionID
				}
			}
			if vid == "" {
				r.res.HarnessErr = fmt.Sprintf("could not identify the new schema version [%s] among %d", newKey, len(ss))
				return false
			}
			if len(r.nodeKnown[node]) > 1 && len(newKey) <= len(r.latestKey(node, newKey)) {
				r.res.Stats["schema_patches_branching"]++
			}
			r.nodeKnown[node][newKey] = vid
			if activate {
				r.nodeActive[node] = newKey
			}
			r.res.Stats["schema_patches"]++
			return true
		}
	case 2:
		keys := sortedKeys(r.nodeKnown[node])
		if len(keys) < 2 {
			return
		}
		to := keys[mod(arg, len(keys))]
		if to == active {
			to = keys[mod(arg+1, len(keys))]
		}
		what = fmt.Sprintf("switch active [%s] -> [%s]", active, to)
		tf := fieldNames(versionFields(to))
		common = nil
		for _, f := range before {
			if tf[f.Name] {
				common = append(common, f)
			}
		}
		apply = func() bool {
			if e := nd.DB.SetActiveSchemaVersion(nd.reqCtx(), r.nodeKnown[node][to]); e != nil {
				r.res.violate("C19", "set-active-failed", "", step, "node %d switch to version [%s]: %v", node, to, e)
				return false
			}
			r.nodeActive[node] = to
			r.res.Stats["schema_switches"]++
			return true
		}
	}
	verb := what[:strings.Index(what+" ", " ")]
	snapBefore, err := r.snapshotForSchema(node, common, knownBefore)
	if err != "" {
		r.res.violate("C19", "query-failed-before-schema-change", "", step, "node %d: %s", node, err)
		return
	}
	if !apply() {
		return
	}
	r.schemaOps++
	synctest.Wait()
	nd.TakeUpdates()
	r.res.logf("step %d schema n%d %s", step, node, what)
	r.order = append(r.order, fmt.Sprintf("S%d:%s", node, what))
	// (0) exactly one version of the collection is active, and it is the one that was asked for
	if acts, e := nd.DB.GetCollections(nd.reqCtx(), client.CollectionFetchOptions{}); e != nil {
		r.res.violate("C19", "unreadable-after-schema-change", "collections", step, "node %d after %s: GetCollections: %v", node, what, e)
		return
	} else {
		byID := map[string]string{}
		for k, vid := range r.nodeKnown[node] {
			byID[vid] = "[" + k + "]"
		}
		var ids []string
		all := acts
		acts = nil
		for _, c := range all {
			if c.Name() != "User" {
				continue
			}
			acts = append(acts, c)
			ids = append(ids, byID[c.Version().VersionID])
		}
		sort.Strings(ids)
		if len(acts) != 1 || acts[0].Version().VersionID != r.nodeKnown[node][r.nodeActive[node]] {
			r.res.violate("C19", "active-version-wrong", verb, step,
				"node %d after %s: active versions %v, want exactly [%s]", node, what, ids, r.nodeActive[node])
			return
		}
	}
	// (a) values, identifiers and history of existing documents unchanged (fields both versions have)
	snapAfter, err := r.snapshotForSchema(node, common, knownBefore)
	if err != "" {
		r.res.violate("C19", "unreadable-after-schema-change", verb, step, "node %d after %s: %s", node, what, err)
		return
	}
	if snapAfter != snapBefore {
		r.res.violate("C19", "data-changed-by-schema-change", verb, step,
			"node %d %s: before=%s after=%s", node, what, short(snapBefore), short(snapAfter))
		return
	}
	// (b) readable under the active version, added fields null / previously written values back
	r.checkNode(step, node, "schema change: "+what)
	// (c) the history stays readable: a read at a commit the node wrote itself (under whatever version was
	// active then) still works under the version that is active now
	if len(r.res.Viols) == 0 {
		for slot := 0; slot < r.p.cfg("docs", 1); slot++ {
			var own []int
			for c := range r.merged[node][slot] {
				anc := map[int]bool{}
				r.ancestors(c, anc)
				local := true
				for a := range anc {
					if r.commits[a].Origin != node {
						local = false
					}
				}
				if local && !r.expect(anc).Deleted {
					own = append(own, c)
				}
			}
			if len(own) == 0 {
				continue
			}
			sort.Ints(own)
			c := r.commits[own[len(own)-1]]
			if _, err := r.queryAt(node, slot, c); err != "" {
				r.res.violate("C19", "history-unreadable-after-schema-change", verb, step,
					"node %d after %s: read of doc %d at its own commit#%d (written under version [%s]): %s", node, what, slot, c.Idx, c.VerKey, err)
				return
			}
			r.res.Stats["reads_at_commit_after_schema_change"]++
		}
	}
}

// latestKey: the longest version key of the node other than newKey (used for a statistic only).
func (r *e1Run) latestKey(node int, newKey string) string {
	best := ""
	for k := range r.nodeKnown[node] {
		if k != newKey && len(k) >= len(best) {
			best = k
		}
	}
	return best
}

// doStaleIndex creates (or drops again) an index through the collection handle the client obtained before any
// schema change. An index change is no schema change: the active version, the documents and their history stay.
func (r *e1Run) doStaleIndex(step, node int) {
	col := r.staleCols[node]
	if col == nil {
		return
	}
	stale := len(r.nodeKnown[node]) > 1 // the node's schema has changed since the handle was obtained
	nd := r.nodes[node]
	before := r.nodeFields(node)
	known := map[string]bool{}
	for _, vid := range r.nodeKnown[node] {
		known[vid] = true
	}
	snapBefore, err := r.snapshotForSchema(node, before, known)
	if err != "" {
		r.res.violate("C19", "query-failed-before-schema-change", "", step, "node %d: %s", node, err)
		return
	}
	what := "create index through a handle from before the schema changes"
	var e error
	if r.staleIx[node] {
		what = "drop index through a handle from before the schema changes"
		e = col.DropIndex(nd.reqCtx(), "ix_stale")
	} else {
		_, e = col.CreateIndex(nd.reqCtx(), client.IndexCreateRequest{Name: "ix_stale", Fields: []client.IndexedFieldDescription{{Name: "flag"}}})
	}
	if e != nil {
		// refusing a stale handle is fine; it must then have no effect
		r.res.Stats["stale_handle_index_refused"]++
	} else {
		r.staleIx[node] = !r.staleIx[node]
		r.res.Stats["stale_handle_index_changes"]++
	}
	synctest.Wait()
	nd.TakeUpdates()
	r.res.logf("step %d n%d %s err=%v", step, node, what, e)
	acts, ge := nd.DB.GetCollections(nd.reqCtx(), client.CollectionFetchOptions{})
	if ge != nil {
		r.res.violate("C19", "unreadable-after-schema-change", "collections", step, "node %d after %s: GetCollections: %v", node, what, ge)
		return
	}
	var ids []string
	n := 0
	for _, c := range acts {
		if c.Name() == "User" {
			n++
			ids = append(ids, c.Version().VersionID)
		}
	}
	if n != 1 || ids[0] != r.nodeKnown[node][r.nodeActive[node]] {
		r.res.violate("C19", "active-version-wrong", "stale-handle-index", step,
			"node %d after %s: %d active versions %v, want exactly the version [%s]", node, what, n, ids, r.nodeActive[node])
		return
	}
	snapAfter, err := r.snapshotForSchema(node, before, known)
	if err != "" {
		r.res.violate("C19", "unreadable-after-schema-change", "stale-handle-index", step, "node %d after %s: %s", node, what, err)
		return
	}
	if snapAfter != snapBefore {
		r.res.violate("C19", "data-changed-by-schema-change", "stale-handle-index", step, "node %d %s: before=%s after=%s", node, what, short(snapBefore), short(snapAfter))
		return
	}
	r.checkNode(step, node, what)
	if len(r.res.Viols) > 0 || e != nil || !stale {
		return
	}
	// The index now is described on the handle's version only. One probe: documents must stay writable.
	// (The run ends here: which indexes the active version maintains is beyond what the model follows.)
	for slot := 0; slot < r.p.cfg("docs", 1); slot++ {
		set := r.mset(node, slot)
		ex := r.expect(set)
		if !ex.Exists || ex.Deleted {
			continue
		}
		_, errs := nd.GQL(fmt.Sprintf(`mutation { update_User(docID: %q, input: {flag: %v}) { _docID } }`, r.docIDs[slot], step%2 == 0))
		if len(errs) > 0 {
			r.res.violate("C19", "unwritable-after-schema-change", "stale-handle-index/"+errClassStr(strings.Join(errs, ";")), step,
				"node %d after %s (active version [%s]): update of document %d fails: %v", node, what, r.nodeActive[node], slot, errs)
			return
		}
		break
	}
	r.stopped = true
}
