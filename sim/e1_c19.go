package verifsim

import (
	"fmt"
	"sort"
	"strings"
	"testing/synctest"

	"github.com/sourcenetwork/immutable"
	"github.com/sourcenetwork/lens/host-go/config/model"

	"github.com/sourcenetwork/defradb/client"
)

// nodeFields: the fields the node's active schema version has.
func (r *e1Run) nodeFields(node int) []fieldSpec {
	fs := append([]fieldSpec{}, userFields...)
	if node < len(r.nodeVer) {
		fs = append(fs, extraFields[:r.nodeVer[node]]...)
	}
	return fs
}

// hiddenField: a field for which the node carries no expectation, because a
// commit writing it was merged while the node's active version did not have it
// (the merge legitimately ignores fields unknown to the local version).
func (r *e1Run) hiddenField(node, slot int, f string) bool {
	return r.tainted[fmt.Sprintf("%d/%d/%s", node, slot, f)]
}

func (r *e1Run) taintOnMerge(node int, newly map[int]bool) {
	have := map[string]bool{}
	for _, f := range r.nodeFields(node) {
		have[f.Name] = true
	}
	for c := range newly {
		mc := r.commits[c]
		for f := range mc.Writes {
			if !have[f] {
				if r.tainted == nil {
					r.tainted = map[string]bool{}
				}
				r.tainted[fmt.Sprintf("%d/%d/%s", node, mc.Doc, f)] = true
				r.res.Stats["merge_of_field_unknown_to_receiver"]++
			}
		}
	}
}

// projectCommon keeps the fields every node's active version has and that are
// untainted on every node.
func (r *e1Run) projectCommon(m map[string]map[string]any) map[string]map[string]any {
	minVer := len(extraFields)
	for _, v := range r.nodeVer {
		if v < minVer {
			minVer = v
		}
	}
	out := map[string]map[string]any{}
	for id, row := range m {
		nr := map[string]any{"_docID": row["_docID"], "_deleted": row["_deleted"]}
		slot := r.slotOf[id]
		for _, f := range append(append([]fieldSpec{}, userFields...), extraFields[:minVer]...) {
			hidden := false
			for n := range r.nodes {
				if r.hiddenField(n, slot, f.Name) {
					hidden = true
				}
			}
			if !hidden {
				nr[f.Name] = row[f.Name]
			}
		}
		out[id] = nr
	}
	return out
}

// snapshotForSchema: values, ids and commit history of all documents as seen by the node.
func (r *e1Run) snapshotForSchema(node int, fields []fieldSpec, pat int) (string, string) {
	sel := "_docID _deleted"
	for _, f := range fields {
		sel += " " + f.Name
	}
	data, errs := r.nodes[node].GQL("query { User(showDeleted: true) { " + sel + " } }")
	if len(errs) > 0 {
		return "", strings.Join(errs, ";")
	}
	docs := canon(sortRows(rows(data, "User"), "_docID"))
	var hist []string
	for slot := 0; slot < r.p.cfg("docs", 1); slot++ {
		id, ok := r.docIDs[slot]
		if !ok || len(r.merged[node][slot]) == 0 {
			continue
		}
		// the commits query resolves each commit's schema version: only asked where the node knows them all
		knowsAll := true
		for c := range r.merged[node][slot] {
			if r.commits[c].Version > pat {
				knowsAll = false
			}
		}
		if !knowsAll {
			continue
		}
		cd, cerrs := r.nodes[node].GQL(fmt.Sprintf(`query { commits(docID: %q) { cid height fieldName } }`, id))
		if len(cerrs) > 0 {
			return "", "commits: " + strings.Join(cerrs, ";")
		}
		hist = append(hist, canon(sortRows(rows(cd, "commits"), "cid")))
	}
	return docs + "|" + strings.Join(hist, "|"), ""
}

func (r *e1Run) doSchema(step, node, kind, arg int) {
	nd := r.nodes[node]
	before := r.nodeFields(node)
	pat0 := r.nodePat[node]
	snapBefore, err := r.snapshotForSchema(node, before, pat0)
	if err != "" {
		r.res.violate("C19", "query-failed-before-schema-change", "", step, "node %d: %s", node, err)
		return
	}
	// per prefix of the field list, for switches to an older version
	beforeByLen := map[int]string{}
	for l := len(userFields); l <= len(before); l++ {
		beforeByLen[l], _ = r.snapshotForSchema(node, before[:l], pat0)
	}
	what := ""
	switch mod(kind, 3) {
	case 0, 1:
		// add the next field; only on top of the node's latest version so that all nodes build the same chain
		if r.nodePat[node] >= len(extraFields) || r.nodeVer[node] != r.nodePat[node] {
			r.res.logf("step %d schema patch skipped on n%d", step, node)
			return
		}
		k := r.nodePat[node]
		activate := mod(kind, 3) == 0
		patch := fmt.Sprintf(`[{"op":"add","path":"/User/Fields/-","value":{"Name":%q,"Kind":%d}}]`, extraFields[k].Name, extraKinds[k])
		if e := nd.DB.PatchSchema(nd.reqCtx(), patch, immutable.None[model.Lens](), activate); e != nil {
			r.res.violate("C19", "patch-failed", "", step, "node %d add field %s: %v", node, extraFields[k].Name, e)
			return
		}
		r.nodePat[node]++
		if activate {
			r.nodeVer[node] = r.nodePat[node]
		}
		// learn the id of the new version
		ss, e := nd.DB.GetSchemas(nd.reqCtx(), client.SchemaFetchOptions{Name: immutable.Some("User")})
		if e != nil {
			r.res.HarnessErr = "GetSchemas: " + e.Error()
			return
		}
		var vid string
		for _, sd := range ss {
			if len(sd.Fields) == len(userFields)+1+r.nodePat[node] { // +_docID
				vid = sd.VersionID
			}
		}
		if vid == "" {
			r.res.HarnessErr = fmt.Sprintf("could not identify new schema version among %d", len(ss))
			return
		}
		if len(r.versions) <= r.nodePat[node] {
			r.versions = append(r.versions, vid)
		} else if r.versions[r.nodePat[node]] != vid {
			r.res.HarnessErr = "precondition: nodes disagree on schema version id"
			return
		}
		what = fmt.Sprintf("patch add %s activate=%v", extraFields[k].Name, activate)
		r.res.Stats["schema_patches"]++
	case 2:
		if r.nodePat[node] == 0 {
			return
		}
		to := mod(arg, r.nodePat[node]+1)
		if to == r.nodeVer[node] {
			to = mod(to+1, r.nodePat[node]+1)
		}
		if e := nd.DB.SetActiveSchemaVersion(nd.reqCtx(), r.versions[to]); e != nil {
			r.res.violate("C19", "set-active-failed", "", step, "node %d switch to version %d: %v", node, to, e)
			return
		}
		what = fmt.Sprintf("switch active %d -> %d", r.nodeVer[node], to)
		r.nodeVer[node] = to
		r.res.Stats["schema_switches"]++
	}
	synctest.Wait()
	nd.TakeUpdates()
	r.res.logf("step %d schema n%d %s", step, node, what)
	r.order = append(r.order, fmt.Sprintf("S%d:%s", node, what))
	// (0) exactly one version of the collection is active, and it is the one that was asked for
	if acts, e := nd.DB.GetCollections(nd.reqCtx(), client.CollectionFetchOptions{}); e != nil {
		r.res.violate("C19", "unreadable-after-schema-change", "collections", step, "node %d after %s: GetCollections: %v", node, what, e)
		return
	} else {
		var ids []string
		all := acts
		acts = nil
		for _, c := range all {
			if c.Name() != "User" {
				continue
			}
			acts = append(acts, c)
			ids = append(ids, fmt.Sprint(indexOf(r.versions, c.Version().VersionID)))
		}
		sort.Strings(ids)
		if len(acts) != 1 || acts[0].Version().VersionID != r.versions[r.nodeVer[node]] {
			r.res.violate("C19", "active-version-wrong", what[:strings.Index(what+" ", " ")], step,
				"node %d after %s: active versions %v, want exactly [%d]", node, what, ids, r.nodeVer[node])
			return
		}
	}
	// (a) values, identifiers and history of existing documents unchanged (fields both versions have)
	common := before
	if after := r.nodeFields(node); len(after) < len(common) {
		common = after
	}
	snapAfter, err := r.snapshotForSchema(node, common, pat0)
	if err != "" {
		r.res.violate("C19", "unreadable-after-schema-change", what[:strings.Index(what+" ", " ")], step, "node %d after %s: %s", node, what, err)
		return
	}
	if len(common) != len(before) {
		snapBefore = beforeByLen[len(common)]
	}
	if snapAfter != snapBefore {
		r.res.violate("C19", "data-changed-by-schema-change", what[:strings.Index(what+" ", " ")], step,
			"node %d %s: before=%s after=%s", node, what, short(snapBefore), short(snapAfter))
		return
	}
	// (b) readable under the active version, added fields null / previously written values back
	r.checkNode(step, node, "schema change: "+what)
}

func indexOf(xs []string, x string) int {
	for i, y := range xs {
		if y == x {
			return i
		}
	}
	return -1
}
