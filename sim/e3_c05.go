package verifsim

import (
	"context"
	"fmt"
	"os"
	"path/filepath"
	"sort"
	"strings"
	"testing/synctest"

	"github.com/ipfs/go-cid"
	"github.com/sourcenetwork/corekv"
	"github.com/sourcenetwork/immutable"
	"github.com/sourcenetwork/lens/host-go/config/model"

	"github.com/sourcenetwork/defradb/acp/identity"
	"github.com/sourcenetwork/defradb/client"
	"github.com/sourcenetwork/defradb/event"
	"github.com/sourcenetwork/defradb/internal/db"
)

func parseCid(s string) (cid.Cid, error) { return cid.Decode(s) }

type e3Engine struct{}

var newStoreHook func() *SimStore

func (e3Engine) Name() string { return "E3" }

func (e3Engine) Gen(prop string, seed int64, tier string) *Plan {
	switch prop {
	case "C20":
		return genC20(seed, tier)
	case "C14":
		return genC14(seed, tier)
	case "C18":
		return genC18(seed, tier)
	}
	r := newRng(seed, 3)
	p := &Plan{Prop: prop, Engine: "E3", Seed: seed, Cfg: map[string]int{}}
	p.Cfg["col"] = pick(r, []int{0, 0, 1, 2, 3, 3, 4, 5})
	p.Cfg["rel"] = r.IntN(2)
	p.Cfg["handle"] = r.IntN(2) // 0 fresh handle per call, 1 long-lived handle
	p.Cfg["sign"] = pick(r, []int{0, 0, 1})
	p.Cfg["maxsites"] = 120
	if tier == "thorough" {
		p.Cfg["maxsites"] = 100000
	}
	npre := r.IntN(9)
	for i := 0; i < npre; i++ {
		p.Steps = append(p.Steps, Step{K: "pre", A: pick(r, []int{0, 0, 0, 1, 2, 2, 3, 4}), B: r.IntN(64), C: r.IntN(64), D: r.IntN(64)})
	}
	// every call kind is visited round-robin over seeds so that the quick tier covers all of them
	kind := int(seed) % nCallKinds
	if kind < 0 {
		kind = -kind
	}
	p.Steps = append(p.Steps, Step{K: "call", A: kind, B: r.IntN(64), C: r.IntN(64), D: r.IntN(64)})
	if kind >= 23 {
		// mutations through a relation need the Book collection, and books to work on
		p.Cfg["rel"] = 1
		for i := 0; i < 3; i++ {
			p.Steps = append([]Step{{K: "pre", A: 0, B: 7 + i, C: 3 + i, D: 11 + i}, {K: "pre", A: 1, B: 5 + i, C: i, D: 2 + i}}, p.Steps...)
			if i == 0 {
				// after the users exist: one of them holds a card
				p.Steps = append(p.Steps[:len(p.Steps)-1:len(p.Steps)-1], Step{K: "pre", A: 5, B: 1, C: 1, D: 1}, p.Steps[len(p.Steps)-1])
			}
		}
	}
	return p
}

func (e3Engine) Run(p *Plan) *Result {
	res := newResult()
	defer res.finish()
	runInBubble(res, func() {
		switch p.Prop {
		case "C20":
			runC20(p, res)
		case "C14":
			runC14(p, res)
		case "C18":
			runC18(p, res)
		default:
			runC05(p, res)
		}
	})
	return res
}

// e3World: the node under test plus helpers shared by the E3 properties.
type e3World struct {
	p      *Plan
	res    *Result
	ctx    context.Context
	n      *SimNode
	opts   NodeOpts
	remote *SimNode
	dir    string
	env    *callEnv
	colID  string
	sdl    string
	// abandoned: the node is not closed at the end (see close)
	abandoned bool
}

func (w *e3World) fail(format string, a ...any) { w.res.HarnessErr = fmt.Sprintf(format, a...) }

func (w *e3World) start() bool {
	p := w.p
	installRand(p.Seed)
	var id immutable.Option[identity.Identity]
	if p.cfg("sign", 0) == 1 {
		id = immutable.Some[identity.Identity](seededIdentity(p.Seed, "shared", p.cfg("ed", 0) == 1))
	}
	w.opts = NodeOpts{Ident: id, DBOpts: []db.Option{db.WithEnabledSigning(p.cfg("sign", 0) != 0)}}
	setRandStep("start")
	st := NewSimStore
	if newStoreHook != nil {
		st = newStoreHook
	}
	n, err := startNode(w.ctx, "n", st(), w.opts)
	if err != nil {
		w.fail("startNode: %v", err)
		return false
	}
	w.n = n
	setRandStep("schema")
	sdl := e3SDL(p.cfg("col", 0), p.cfg("rel", 0) == 1)
	if w.sdl != "" {
		sdl = w.sdl
	}
	cols, err := n.DB.AddSchema(n.reqCtx(), sdl)
	if err != nil {
		w.fail("AddSchema: %v", err)
		return false
	}
	for _, c := range cols {
		if c.Name == "User" {
			w.colID = c.CollectionID
		}
	}
	return true
}

func (w *e3World) close() {
	if w.abandoned {
		// the node cannot be closed any more (its event bus is blocked): it is left behind with the bubble
		return
	}
	if w.n != nil {
		w.n.Close()
	}
	if w.remote != nil {
		w.remote.Close()
	}
	if w.dir != "" {
		_ = os.RemoveAll(w.dir)
	}
}

// restartAt closes the node and reopens it on the first k durable batches (k<0: all).
func (w *e3World) restartAt(k int) bool {
	st := w.n.Store
	w.n.Close()
	nst := st.Reopen(k)
	nst.Yield = st.Yield
	setRandStep("restart")
	n, err := startNode(w.ctx, "n", nst, w.opts)
	if err != nil {
		w.fail("restart: %v", err)
		return false
	}
	w.n = n
	return true
}

func (w *e3World) queryUsers(n *SimNode) []map[string]any {
	data, errs := n.GQL(`query { User(showDeleted: true) { _docID _deleted name age points flag } }`)
	if len(errs) > 0 {
		w.fail("query users: %v", errs)
		return nil
	}
	return sortRows(rows(data, "User"), "_docID")
}

// pre executes one pre-state operation (fault-free).
func (w *e3World) pre(i int, s Step) {
	n := w.n
	users := liveOnes(w.queryUsers(n))
	name := e3Names[mod(s.B, len(e3Names))]
	switch mod(s.A, 5) {
	case 0:
		// ages 20..26 collide on purpose for non-unique collections; unique ones get distinct ages
		age := 20 + mod(s.C, 7)
		if w.p.cfg("col", 0) == 3 {
			age = 20 + i
		}
		_, errs := n.GQL(fmt.Sprintf(`mutation { create_User(input: {name: %q, age: %d, points: %d}) { _docID } }`, fmt.Sprintf("%s%d", name, i), age, mod(s.D, 5)))
		_ = errs
	case 1:
		if w.p.cfg("rel", 0) == 1 && len(users) > 0 {
			u := users[mod(s.C, len(users))]
			n.GQL(fmt.Sprintf(`mutation { create_Book(input: {title: %q, rating: %d.5, author: %q}) { _docID } }`, fmt.Sprintf("t%d", i), mod(s.D, 5), u["_docID"]))
		}
	case 2:
		if len(users) > 0 {
			u := users[mod(s.C, len(users))]
			n.GQL(fmt.Sprintf(`mutation { update_User(docID: %q, input: {points: %d, flag: %v}) { _docID } }`, u["_docID"], 1+mod(s.D, 5), mod(s.D, 2) == 0))
		}
	case 3:
		if len(users) > 1 {
			u := users[mod(s.C, len(users))]
			n.GQL(fmt.Sprintf(`mutation { delete_User(docID: %q) { _docID } }`, u["_docID"]))
		}
	case 5:
		if w.p.cfg("rel", 0) == 1 && len(users) > 0 {
			u := users[mod(s.C, len(users))]
			n.GQL(fmt.Sprintf(`mutation { create_Card(input: {code: %q, holder: %q}) { _docID } }`, fmt.Sprintf("c%d", i), u["_docID"]))
		}
	case 4:
		// a schema patch in the pre-state, so that version switches have something to switch between
		if w.env.versions == nil {
			patch := `[{"op":"add","path":"/User/Fields/-","value":{"Name":"pre1","Kind":11}}]`
			_ = n.DB.PatchSchema(n.reqCtx(), patch, immutable.None[model.Lens](), mod(s.D, 2) == 0)
			ss, _ := n.DB.GetSchemas(n.reqCtx(), client.SchemaFetchOptions{Name: immutable.Some("User")})
			var vs []string
			for _, sd := range ss {
				vs = append(vs, sd.VersionID)
			}
			w.env.versions = vs
		}
	}
	synctest.Wait()
	n.TakeUpdates()
}

// prepareRemote builds, on a second node, a commit chain for the merge call and an export file for import.
func (w *e3World) prepareRemote(s Step) bool {
	kind := callKindName(s.A)
	if kind != "merge" && kind != "basicImport" {
		return true
	}
	setRandStep("remote")
	m, err := startNode(w.ctx, "m", NewSimStore(), w.opts)
	if err != nil {
		w.fail("remote start: %v", err)
		return false
	}
	w.remote = m
	if _, err := m.DB.AddSchema(m.reqCtx(), e3SDL(w.p.cfg("col", 0), w.p.cfg("rel", 0) == 1)); err != nil {
		w.fail("remote schema: %v", err)
		return false
	}
	data, errs := m.GQL(fmt.Sprintf(`mutation { create_User(input: {name: "remote%d", age: %d, points: 3}) { _docID } }`, mod(s.B, 9), 90+mod(s.B, 5)))
	if len(errs) > 0 {
		w.fail("remote create: %v", errs)
		return false
	}
	id := rows(data, "create_User")[0]["_docID"].(string)
	synctest.Wait()
	ups := m.TakeUpdates()
	if kind == "basicImport" {
		m.GQL(fmt.Sprintf(`mutation { create_User(input: {name: "remoteB", age: %d}) { _docID } }`, 80+mod(s.C, 5)))
		w.dir = scratchDir(w.p.Seed)
		f := filepath.Join(w.dir, "export.json")
		if err := m.DB.BasicExport(m.reqCtx(), &client.BackupConfig{Filepath: f, Collections: []string{"User"}}); err != nil {
			w.fail("export: %v", err)
			return false
		}
		w.env.importFile = f
		synctest.Wait()
		m.TakeUpdates()
		return true
	}
	var genesis event.Update
	for _, u := range ups {
		if u.DocID == id {
			genesis = u
		}
	}
	m.GQL(fmt.Sprintf(`mutation { update_User(docID: %q, input: {points: 4, age: %d}) { _docID } }`, id, 95+mod(s.C, 4)))
	synctest.Wait()
	var head event.Update
	for _, u := range m.TakeUpdates() {
		if u.DocID == id {
			head = u
		}
	}
	if !head.Cid.Defined() || !genesis.Cid.Defined() {
		w.fail("remote commits missing")
		return false
	}
	r1 := &e1Run{}
	if err := r1.copyBlocks(m, w.n, head.Cid, map[string]bool{}); err != nil {
		w.fail("copy: %v", err)
		return false
	}
	if mod(s.C, 2) == 1 {
		// the genesis is already merged: the call then merges an update of a known document
		if err := w.n.DB.VerifExecuteMerge(w.n.ctx, event.Merge{DocID: id, Cid: genesis.Cid, CollectionID: w.colID}); err != nil {
			w.fail("pre-merge: %v", err)
			return false
		}
		if mod(s.C, 4) == 3 {
			// ... and updated locally: the remote update is then a concurrent branch
			if _, errs := w.n.GQL(fmt.Sprintf(`mutation { update_User(docID: %q, input: {points: 9, flag: true}) { _docID } }`, id)); len(errs) > 0 {
				w.fail("pre-update: %v", errs)
				return false
			}
		}
	}
	w.env.remote = &remoteCommit{docID: id, cid: head.Cid.String(), colID: w.colID}
	synctest.Wait()
	w.n.TakeUpdates()
	return true
}

func siteErr(site Site, sel int) (error, string) {
	switch site.Kind {
	case "set", "delete":
		if sel%2 == 0 {
			return ErrSimDiskFull, "disk_full"
		}
		return ErrSimIO, "write_error"
	case "commit":
		if sel%2 == 0 {
			return corekv.ErrTxnConflict, "commit_conflict"
		}
		return ErrSimIO, "commit_error"
	case "iter", "next", "value", "seek":
		return ErrSimIO, "iterator_error"
	default:
		return ErrSimIO, "read_error"
	}
}

func runC05(p *Plan, res *Result) {
	ctx, cancel := context.WithCancel(context.Background())
	defer cancel()
	w := &e3World{p: p, res: res, ctx: ctx, env: &callEnv{seed: p.Seed, col: p.cfg("col", 0), rel: p.cfg("rel", 0) == 1}}
	defer w.close()
	if !w.start() {
		return
	}
	var call Step
	haveCall := false
	for i, s := range p.Steps {
		setRandStep(fmt.Sprintf("step|%d", i))
		if s.K == "pre" {
			w.pre(i, s)
		} else if s.K == "call" && !haveCall {
			call, haveCall = s, true
		}
		if res.HarnessErr != "" {
			return
		}
	}
	if !haveCall {
		return
	}
	if !w.prepareRemote(call) {
		return
	}
	w.env.users = w.queryUsers(w.n)
	if w.p.cfg("rel", 0) == 1 {
		if bd, errs := w.n.GQL(`query { Book { _docID } }`); len(errs) == 0 {
			w.env.books = sortRows(rows(bd, "Book"), "_docID")
		}
	}
	kind := callKindName(call.A)
	ac := buildCall(call, w.env)
	withCommits := true
	k0 := w.n.Store.DurableLen()
	d0, err := fullDump(w.n, withCommits)
	if err != nil {
		w.fail("dump pre-state: %v", err)
		return
	}
	// ---- twin: fault-free run, site list, expected post-state ------------------
	setRandStep("twin-start")
	twin, err := startNode(ctx, "t", w.n.Store.Fork(), w.opts)
	if err != nil {
		w.fail("twin: %v", err)
		return
	}
	synctest.Wait()
	twin.TakeUpdates()
	twin.Store.BeginWindow(true)
	setRandStep("call")
	terr, tpanic := safeCall(ac, twin, &handles{fresh: true})
	sites := twin.Store.EndWindow()
	synctest.Wait()
	tEvents := twin.TakeUpdates()
	if tpanic != "" {
		res.violate("C05", "panic", "panic/"+kind+"/fault-free", 0, "%s panicked without any fault: %s", kind, tpanic)
		twin.Close()
		return
	}
	d1, derr := fullDump(twin, withCommits)
	tk := twin.Store.DurableLen()
	twin.Close()
	if derr != nil {
		w.fail("dump twin: %v", derr)
		return
	}
	if terr != nil {
		// a call that fails without faults must be all-or-nothing as well
		res.Stats["fault_free_call_failed"]++
		if tk != k0 || diffDump(d0, d1) != "" || len(tEvents) > 0 {
			res.violate("C05", "error-left-trace", "error-left-trace/"+kind+"/fault-free/"+dumpSection(diffDump(d0, d1)), 0,
				"%s failed without faults (%v) but left a trace: batches %d->%d, events %d, diff %s", kind, terr, k0, tk, len(tEvents), diffDump(d0, d1))
			return
		}
		d1 = d0
	}
	if kind == "txnContinue" && terr == nil && w.env.lastFailed != 0 {
		// reference: the same transaction without the operations that reported an error
		failed := w.env.lastFailed
		setRandStep("twin-start")
		ref, err := startNode(ctx, "r", w.n.Store.Fork(), w.opts)
		if err != nil {
			w.fail("reference twin: %v", err)
			return
		}
		synctest.Wait()
		ref.TakeUpdates()
		w.env.skipMask = failed
		setRandStep("call")
		rerr, rpanic := safeCall(ac, ref, &handles{fresh: true})
		w.env.skipMask = 0
		synctest.Wait()
		rEvents := ref.TakeUpdates()
		dref, derr := fullDump(ref, withCommits)
		ref.Close()
		if derr != nil || rerr != nil || rpanic != "" {
			w.fail("reference run of txnContinue: %v %v %s", derr, rerr, rpanic)
			return
		}
		res.Stats["txn_operations_failed_logically"]++
		if df := diffDump(dref, d1); df != "" || len(rEvents) != len(tEvents) {
			res.violate("C05", "error-left-trace", "error-left-trace/txnContinue/committed-with-transaction/"+dumpSection(df), 0,
				"operations %b of an explicit transaction reported an error, the caller went on and committed: the committed state differs from that of the same transaction without those operations (events %d vs %d): %s",
				failed, len(tEvents), len(rEvents), df)
			return
		}
	}
	res.logf("call %s twin err=%v sites=%d events=%d", kind, terr, len(sites), len(tEvents))
	// distinct sites
	var distinct []Site
	seen := map[string]bool{}
	for _, s := range sites {
		if !seen[s.String()] {
			seen[s.String()] = true
			distinct = append(distinct, s)
		}
	}
	// canonical order: DefraDB walks Go maps (the fields of a document), so the order in which a call reaches
	// its storage operations is not a function of the seed; the set of sites is
	sort.Slice(distinct, func(i, j int) bool { return distinct[i].String() < distinct[j].String() })
	res.Stats["sites_total"] += len(distinct)
	if max := p.cfg("maxsites", 120); len(distinct) > max {
		// seeded subset, order preserved
		rr := newRng(p.Seed, 77)
		keep := map[int]bool{}
		for len(keep) < max {
			keep[rr.IntN(len(distinct))] = true
		}
		var sub []Site
		for i, s := range distinct {
			if keep[i] {
				sub = append(sub, s)
			}
		}
		distinct = sub
		res.Stats["plans_with_sampled_sites"]++
	}
	h := &handles{fresh: p.cfg("handle", 0) == 0}
	shape := map[string]bool{}
	// ---- every site fails once --------------------------------------------------
	for si, site := range distinct {
		ferr, fkind := siteErr(site, call.D+si)
		w.n.Store.BeginWindow(false)
		w.n.Store.FailSite(site, ferr)
		setRandStep("call")
		cerr, cpanic := safeCall(ac, w.n, h)
		fired := len(w.n.Store.Fired()) > 0
		w.n.Store.ClearFaults()
		synctest.Wait()
		evs := w.n.TakeUpdates()
		kc := keyClass(site.Key)
		cls := kind + "/" + site.Kind + "|" + kc
		if fired {
			res.Stats["fault_"+fkind]++
			shape[kind+"|"+site.Kind+"|"+kc] = true
		} else {
			res.Stats["fault_not_reached"]++
		}
		res.logf("site %d %s %s fired=%v err=%v events=%d", si, site.Kind, kc, fired, cerr != nil, len(evs))
		if cpanic != "" {
			leak := ""
			if lk := w.n.Store.Leaks; len(lk) > 0 {
				leak = "; iterator left open by " + lk[len(lk)-1]
			}
			res.violate("C05", "panic", "panic/"+cls, si, "%s panicked when %s on %q failed: %s%s", kind, site.Kind, site.Key, cpanic, leak)
			return
		}
		kNow := w.n.Store.DurableLen()
		if cerr != nil {
			if kNow != k0 {
				res.violate("C05", "error-after-commit", "error-after-commit/"+cls, si,
					"%s reported %q (fault: %s #%d on %q) but %d new batch(es) became durable", kind, cerr, site.Kind, site.Occ, site.Key, kNow-k0)
				return
			}
			if len(evs) > 0 {
				res.violate("C05", "event-without-commit", "event-without-commit/"+cls, si,
					"%s reported %q but %d update notification(s) were published", kind, cerr, len(evs))
				return
			}
			d, derr := fullDump(w.n, withCommits)
			if derr != nil {
				res.violate("C05", "unreadable-after-failed-call", "unreadable-after-failed-call/"+cls, si,
					"after %s failed (%v; fault %s on %q) the node cannot be read: %v", kind, cerr, site.Kind, site.Key, derr)
				return
			}
			if df := diffDump(d0, d); df != "" {
				res.violate("C05", "error-left-trace", "error-left-trace/"+cls+"/"+dumpSection(df), si,
					"%s reported %q (fault %s #%d on %q) but the node changed: %s", kind, cerr, site.Kind, site.Occ, site.Key, df)
				return
			}
			continue
		}
		// success reported
		d, derr := fullDump(w.n, withCommits)
		if derr != nil {
			res.violate("C05", "unreadable-after-call", "unreadable-after-call/"+cls, si, "after %s (fault %s on %q): %v", kind, site.Kind, site.Key, derr)
			return
		}
		if df := diffDump(d1, d); df != "" {
			clause := "success-after-partial"
			if !fired {
				clause = "nondeterministic-outcome"
			}
			res.violate("C05", clause, clause+"/"+cls+"/"+dumpSection(df), si,
				"%s reported success (fault %s #%d on %q, fired=%v) but the state differs from the complete effect: %s", kind, site.Kind, site.Occ, site.Key, fired, df)
			return
		}
		if len(evs) != len(tEvents) && terr == nil {
			res.violate("C05", "events-mismatch", "events-mismatch/"+cls, si,
				"%s reported success with %d update notifications, fault-free run publishes %d", kind, len(evs), len(tEvents))
			return
		}
		if fired {
			res.Stats["success_despite_fault"]++
		}
		// restore the pre-state for the next site
		if kNow != k0 || diffDump(d0, d) != "" {
			if !w.restartAt(k0) {
				return
			}
			h = &handles{fresh: p.cfg("handle", 0) == 0}
			synctest.Wait()
			w.n.TakeUpdates()
		}
	}
	// ---- the same call without fault then succeeds -------------------------------
	w.n.Store.BeginWindow(false)
	setRandStep("call")
	cerr, cpanic := safeCall(ac, w.n, h)
	synctest.Wait()
	evs := w.n.TakeUpdates()
	if cpanic != "" {
		res.violate("C05", "panic", "panic/"+kind+"/after-faults", -1, "%s panicked after earlier failed attempts: %s", kind, cpanic)
		return
	}
	if (cerr == nil) != (terr == nil) {
		res.violate("C05", "retry-after-failure-differs", "retry-after-failure-differs/"+kind, -1,
			"after the failed attempts the fault-free call returned %v, on the twin it returned %v", cerr, terr)
		return
	}
	d, derr := fullDump(w.n, withCommits)
	if derr != nil {
		res.violate("C05", "unreadable-after-call", "final/"+kind, -1, "%v", derr)
		return
	}
	if df := diffDump(d1, d); df != "" {
		res.violate("C05", "retry-after-failure-differs", "retry-after-failure-differs/"+kind+"/"+dumpSection(df), -1,
			"after the failed attempts the fault-free call does not produce the twin's state: %s", df)
		return
	}
	if terr == nil && len(evs) != len(tEvents) {
		res.violate("C05", "events-mismatch", "events-mismatch/"+kind+"/final", -1, "%d vs %d", len(evs), len(tEvents))
		return
	}
	res.Stats["calls_"+kind]++
	var ks []string
	for k := range shape {
		ks = append(ks, k)
	}
	res.Shape = strings.Join(sortedCopy(ks), ";")
	res.ShapeSet = sortedCopy(ks)
	res.Nontrivial = len(ks) > 0
	res.Stats["sites_failed"] += len(distinct)
}

func sortedCopy(xs []string) []string {
	m := map[string]bool{}
	for _, x := range xs {
		m[x] = true
	}
	return sortedKeys(m)
}
