package verifsim

import (
	"context"
	"errors"
	"fmt"
	"sort"
	"strings"
	"testing/synctest"

	blocks "github.com/ipfs/go-block-format"
	"github.com/ipfs/go-cid"
	"github.com/sourcenetwork/corekv"
	"github.com/sourcenetwork/immutable"

	"github.com/sourcenetwork/defradb/client"
	"github.com/sourcenetwork/defradb/acp/identity"
	"github.com/sourcenetwork/defradb/event"
	coreblock "github.com/sourcenetwork/defradb/internal/core/block"
	"github.com/sourcenetwork/defradb/internal/db"
)

// E1 — cluster with direct delivery. See DESIGN.md §4.
type e1Engine struct{}

func (e1Engine) Name() string { return "E1" }

// ---- plan generation ------------------------------------------------------

func (e1Engine) Gen(prop string, seed int64, tier string) *Plan {
	r := newRng(seed, 1)
	p := &Plan{Prop: prop, Engine: "E1", Seed: seed, Cfg: map[string]int{}}
	n := 2 + r.IntN(3)
	p.Cfg["nodes"] = n
	p.Cfg["docs"] = 1 + r.IntN(3)
	// collection kind: 0 plain, 1 branchable, 2 index(name), 3 unique index(age), 4 two indexes
	kinds := []int{0, 0, 0, 2, 4, 3, 1}
	p.Cfg["col"] = pick(r, kinds)
	p.Cfg["sign"] = r.IntN(3) // 0 none, 1 one identity everywhere, 2 identity per node
	p.Cfg["ed"] = r.IntN(2)
	p.Cfg["sdlorder"] = r.IntN(4)
	if prop == "C19" {
		p.Cfg["col"] = pick(r, []int{0, 0, 2})
		p.Cfg["schema"] = 1
	}
	if prop == "C11" {
		p.Cfg["col"] = 0
		p.Cfg["enc"] = 1 + r.IntN(2)         // 1 doc-level, 2 field-level
		p.Cfg["keyless"] = r.IntN(1<<n) &^ 1 // node 0 always holds keys
		p.Cfg["encsel"] = r.IntN(16)
		p.Cfg["encrot"] = r.IntN(6)
		p.Cfg["sign"] = 0
	}
	// "narrow" plans write few fields with few values, so that replicas often write the very same
	// value on the same field head (content-identical field blocks) and ties at equal height abound
	if prop != "C11" && prop != "C19" && chance(r, 35) {
		p.Cfg["narrow"] = 1
	}
	// "wide" plans: a collection with more than twenty fields (two-digit short field ids)
	if (prop == "C04" || prop == "C01" || prop == "C02") && chance(r, 20) {
		p.Cfg["wide"] = 1
	}
	nops := 4 + r.IntN(27)
	if tier == "quick" {
		nops = 4 + r.IntN(20)
	}
	// swarm-style weights
	wCreate, wUpd, wDel, wDeliver, wSync := 2, 6+r.IntN(6), r.IntN(3), 4+r.IntN(10), r.IntN(3)
	wSchema := 0
	if p.Cfg["schema"] == 1 {
		wSchema = 2 + r.IntN(3)
		if chance(r, 50) {
			// schema-heavy history on few nodes: several patches and switches on the same node
			wSchema = 8 + r.IntN(8)
			n = 2
			p.Cfg["nodes"] = 2
		}
	}
	total := wCreate + wUpd + wDel + wDeliver + wSync + wSchema
	// always start with a create
	p.Steps = append(p.Steps, Step{K: "create", A: r.IntN(n), B: 0})
	for i := 0; i < nops; i++ {
		x := r.IntN(total)
		switch {
		case x < wCreate:
			p.Steps = append(p.Steps, Step{K: "create", A: r.IntN(n), B: r.IntN(p.Cfg["docs"])})
		case x < wCreate+wUpd:
			nf := 1
			if chance(r, 30) {
				nf = 2
			}
			// C: field selector, D: value selector; S unused. second field packed in C/D high bits
			p.Steps = append(p.Steps, Step{K: "update", A: r.IntN(n), B: r.IntN(p.Cfg["docs"]),
				C: r.IntN(1 << 16), D: r.IntN(1<<16) | (nf-1)<<20})
		case x < wCreate+wUpd+wDel:
			p.Steps = append(p.Steps, Step{K: "delete", A: r.IntN(n), B: r.IntN(p.Cfg["docs"])})
		case x < wCreate+wUpd+wDel+wDeliver:
			// deliver commit (index C among known commits) to node A; D biases towards old commits
			p.Steps = append(p.Steps, Step{K: "deliver", A: r.IntN(n), C: r.IntN(1 << 16), D: r.IntN(4)})
		case x < wCreate+wUpd+wDel+wDeliver+wSync:
			p.Steps = append(p.Steps, Step{K: "sync", A: r.IntN(n), B: r.IntN(n)})
		default:
			p.Steps = append(p.Steps, Step{K: "schema", A: r.IntN(n), B: r.IntN(3), C: r.IntN(4)})
		}
	}
	if prop == "C19" {
		// index changes through a collection handle that was obtained before the schema changed (own stream)
		rs := newRng(seed, 191)
		var steps []Step
		for _, st := range p.Steps {
			steps = append(steps, st)
			if st.K == "schema" && chance(rs, 25) {
				steps = append(steps, Step{K: "staleindex", A: st.A})
			}
		}
		p.Steps = steps
		// late patch (own stream): a node without any version that has the field merges a write of
		// it, is patched afterwards, writes the field itself and sends that back
		if rl := newRng(seed, 192); chance(rl, 5) {
			x := p.Steps[0].A
			y := mod(x+1, n)
			late := []Step{
				{K: "schema", A: x},
				{K: "update", A: x, D: 8 | rl.IntN(8)},
				{K: "sync", A: x, B: y},
				{K: "schema", A: y},
				{K: "update", A: y, D: 8 | rl.IntN(8)},
				{K: "sync", A: y, B: x},
			}
			p.Steps = append(append([]Step{p.Steps[0]}, late...), p.Steps[1:]...)
		} else if chance(rl, 5) {
			// the same with a receiver that holds the version with the field without it being active
			x := p.Steps[0].A
			y := mod(x+1, n)
			late := []Step{
				{K: "schema", A: x},
				{K: "schema", A: y, B: 1},
				{K: "update", A: x, D: 8 | rl.IntN(8)},
				{K: "sync", A: x, B: y},
				{K: "schema", A: y, B: 2},
				{K: "update", A: y, D: 8 | rl.IntN(8)},
				{K: "sync", A: y, B: x},
			}
			p.Steps = append(append([]Step{p.Steps[0]}, late...), p.Steps[1:]...)
		}
	}
	if p.Cfg["col"] == 1 {
		// branchable collection: collection-level commits are delivered too (own stream of choices, so that
		// the plans of the other configurations stay what they were)
		rc := newRng(seed, 177)
		var steps []Step
		for _, st := range p.Steps {
			steps = append(steps, st)
			if chance(rc, 30) {
				steps = append(steps, Step{K: "coldeliver", A: rc.IntN(n), C: rc.IntN(1 << 16), D: rc.IntN(4)})
			}
		}
		p.Steps = steps
	}
	// final anti-entropy, two rounds in seeded order, then the convergence check
	p.Steps = append(p.Steps, Step{K: "antientropy", A: r.IntN(1 << 16)})
	p.Steps = append(p.Steps, Step{K: "antientropy", A: r.IntN(1 << 16)})
	p.Steps = append(p.Steps, Step{K: "converged"})
	return p
}

// ---- model ------------------------------------------------------------------

// mCol: a collection-level commit: links one document commit, parents are collection-level commits.
type mCol struct {
	Idx     int
	C       cid.Cid
	Origin  int
	Doc     int // index of the document commit it links
	Parents []int
}

type mCommit struct {
	Idx     int
	Cid     string
	C       cid.Cid
	Doc     int // doc slot; -1 for collection-level commits
	Origin  int
	Parents []int
	Writes  map[string]string  // register field -> canonical value
	Incs    map[string]float64 // counter field -> increment
	Delete  bool
	Block   []byte
	VerKey string // schema version (key, see e1Run.nodeKnown) the writer was on (C19)
	// Detached: fields this commit writes although its writer had ignored an earlier write
	// of them at a merge (no version it held then had the field): finding identity (C19)
	Detached map[string]bool
}

type e1Run struct {
	p     *Plan
	res   *Result
	ctx   context.Context
	nodes []*SimNode
	colID string

	commits []*mCommit
	byCid   map[string]int
	// merged[node][doc] = set of commit idx (closed under ancestry)
	merged  []map[int]map[int]bool
	// collection-level commits of a branchable collection (one per document write) and, per node, the merged ones
	colCommits []*mCol
	colMerged  []map[int]bool
	docIDs  map[int]string // slot -> docID
	slotOf  map[string]int
	props   map[string]bool
	stopped bool // a legitimate divergence (unique violation) ended the checks
	step    int

	// C03: what the ordinary query returned right after each local commit
	afterLocal map[int]string
	// subscription results
	subCh     <-chan any
	redeliver int
	concur    int
	order     []string
	// C19
	// per node: the versions it knows (key: the extra fields of the version in the order they were added,
	// e.g. "" for the root, "0,1", or "1" for a branch made after switching back), the active one, and
	// the next extra field the node will add. Patching while an older version is active branches.
	nodeKnown  []map[string]string // key -> schema version id
	nodeActive []string
	nodeNext   []int
	schemaOps  int
	staleCols  []client.Collection // per node: the handle of the collection as obtained right after the schema was added
	staleIx    []bool
	// C11
	secretPats []secretPat
	secretN    int
	encKeys    [][]byte
	creators   map[int]int // slot -> creating node + 1
	tainted    map[string]bool
	leftOut    map[string]bool // "<slot>/<field>": encrypted field without a value at the create
}

func (e1Engine) Run(p *Plan) *Result {
	res := newResult()
	defer res.finish()
	runInBubble(res, func() {
		r := &e1Run{p: p, res: res, byCid: map[string]int{}, docIDs: map[int]string{}, slotOf: map[string]int{},
			afterLocal: map[int]string{}, creators: map[int]int{}}
		r.props = propsFor(p.Prop)
		r.run()
	})
	return res
}

// propsFor: which oracles are evaluated for a check of the given property.
func propsFor(prop string) map[string]bool {
	m := map[string]bool{prop: true}
	switch prop {
	case "C01":
		m["C01"] = true
	case "ALL":
		for _, x := range []string{"C01", "C02", "C03", "C04", "C11", "C19"} {
			m[x] = true
		}
	}
	return m
}

func (r *e1Run) run() {
	p := r.p
	installRand(p.Seed)
	ctx, cancel := context.WithCancel(context.Background())
	defer cancel()
	r.ctx = ctx
	n := p.cfg("nodes", 2)
	sign := p.cfg("sign", 0)
	for i := 0; i < n; i++ {
		setRandStep(fmt.Sprintf("start|%d", i))
		var id immutable.Option[identity.Identity]
		switch sign {
		case 1:
			id = immutable.Some[identity.Identity](seededIdentity(p.Seed, "shared", p.cfg("ed", 0) == 1))
		case 2:
			id = immutable.Some[identity.Identity](seededIdentity(p.Seed, fmt.Sprintf("node%d", i), (p.cfg("ed", 0)+i)%2 == 1))
		}
		st := NewSimStore()
		r.installMonitors(i, st)
		nd, err := startNode(ctx, fmt.Sprintf("n%d", i), st, NodeOpts{Ident: id, DBOpts: []db.Option{db.WithEnabledSigning(sign != 0)}})
		if err != nil {
			r.res.HarnessErr = "startNode: " + err.Error()
			return
		}
		r.nodes = append(r.nodes, nd)
		r.merged = append(r.merged, map[int]map[int]bool{})
		r.colMerged = append(r.colMerged, map[int]bool{})
	}
	defer func() {
		for _, nd := range r.nodes {
			nd.Close()
		}
	}()
	// schema on every node (field order varies per node)
	for i, nd := range r.nodes {
		setRandStep(fmt.Sprintf("schema|%d", i))
		sdl := userSDLWide(p.cfg("col", 0), p.cfg("sdlorder", 0)+i, p.cfg("wide", 0) == 1)
		cols, err := nd.DB.AddSchema(nd.reqCtx(), sdl)
		if err != nil || len(cols) != 1 {
			r.res.HarnessErr = fmt.Sprintf("AddSchema: %v", err)
			return
		}
		if i == 0 {
			r.colID = cols[0].CollectionID
		} else if cols[0].CollectionID != r.colID {
			r.res.HarnessErr = "precondition: nodes disagree on collection id"
			return
		}
	}
	r.staleCols = make([]client.Collection, n)
	r.staleIx = make([]bool, n)
	r.nodeKnown = make([]map[string]string, n)
	r.nodeActive = make([]string, n)
	r.nodeNext = make([]int, n)
	for i, nd := range r.nodes {
		r.nodeKnown[i] = map[string]string{}
		if cs, err := nd.DB.GetCollections(nd.reqCtx(), client.CollectionFetchOptions{}); err == nil {
			for _, c := range cs {
				if c.Name() == "User" {
					r.nodeKnown[i][""] = c.Version().VersionID
					r.staleCols[i] = c
				}
			}
		}
	}
	r.openSubscriptions()
	r.installKMS()
	synctest.Wait()
	for _, nd := range r.nodes {
		nd.TakeUpdates()
	}
	for i, s := range p.Steps {
		if r.stopped || r.res.HarnessErr != "" {
			break
		}
		r.step = i
		setRandStep(fmt.Sprintf("step|%d", i))
		r.exec(i, s)
		if len(r.res.Viols) > 0 {
			break
		}
	}
	r.res.Stats["commits"] = len(r.commits)
	r.res.Stats["redeliveries"] = r.redeliver
	r.res.Stats["concurrent_pairs"] = r.concur
	r.res.Shape = hashStrings(r.order...)
	r.res.Nontrivial = r.concur > 0 && r.redeliver > 0
}

func (r *e1Run) exec(i int, s Step) {
	n := len(r.nodes)
	switch s.K {
	case "create":
		r.doCreate(i, mod(s.A, n), mod(s.B, r.p.cfg("docs", 1)))
	case "update":
		r.doUpdate(i, mod(s.A, n), mod(s.B, r.p.cfg("docs", 1)), s.C, s.D)
	case "delete":
		r.doDelete(i, mod(s.A, n), mod(s.B, r.p.cfg("docs", 1)))
	case "deliver":
		if len(r.commits) == 0 {
			return
		}
		k := mod(s.C, len(r.commits))
		if s.D == 0 && len(r.commits) > 2 { // bias: old commits
			k = mod(s.C, (len(r.commits)+1)/2)
		}
		r.deliver(i, r.commits[k], mod(s.A, n))
	case "coldeliver":
		if len(r.colCommits) == 0 {
			return
		}
		k := mod(s.C, len(r.colCommits))
		if s.D == 0 && len(r.colCommits) > 2 { // bias: old commits
			k = mod(s.C, (len(r.colCommits)+1)/2)
		}
		r.deliverCol(i, r.colCommits[k], mod(s.A, n))
	case "sync":
		r.syncHeads(i, mod(s.A, n), mod(s.B, n))
	case "antientropy":
		// every node's heads to every node, pair order rotated by A
		type pr struct{ a, b int }
		var prs []pr
		for a := 0; a < n; a++ {
			for b := 0; b < n; b++ {
				if a != b {
					prs = append(prs, pr{a, b})
				}
			}
		}
		off := mod(s.A, len(prs))
		for k := range prs {
			q := prs[(k+off)%len(prs)]
			r.syncHeads(i, q.a, q.b)
			if len(r.res.Viols) > 0 || r.stopped {
				return
			}
		}
	case "converged":
		r.checkConverged(i)
	case "schema":
		r.doSchema(i, mod(s.A, n), s.B, s.C)
	case "staleindex":
		r.doStaleIndex(i, mod(s.A, n))
	}
}

// ---- model helpers ------------------------------------------------------

func (r *e1Run) mset(node, doc int) map[int]bool {
	m := r.merged[node][doc]
	if m == nil {
		m = map[int]bool{}
		r.merged[node][doc] = m
	}
	return m
}

func (r *e1Run) ancestors(c int, into map[int]bool) {
	if into[c] {
		return
	}
	into[c] = true
	for _, p := range r.commits[c].Parents {
		r.ancestors(p, into)
	}
}

func (r *e1Run) isAncestor(a, b int) bool { // a strictly before b
	if a == b {
		return false
	}
	s := map[int]bool{}
	r.ancestors(b, s)
	return s[a]
}

// maximal elements of a set (optionally restricted by pred)
func (r *e1Run) maximal(set map[int]bool, pred func(*mCommit) bool) []int {
	var cand []int
	for c := range set {
		if pred == nil || pred(r.commits[c]) {
			cand = append(cand, c)
		}
	}
	sort.Ints(cand)
	var out []int
	for _, c := range cand {
		dominated := false
		for _, d := range cand {
			if d != c && r.isAncestor(c, d) {
				dominated = true
				break
			}
		}
		if !dominated {
			out = append(out, c)
		}
	}
	return out
}

// expectation for one doc on one node from a merged set
type docExpect struct {
	Exists  bool
	Deleted bool
	Regs    map[string]map[string]bool // field -> allowed canonical values
	Ctrs    map[string]string          // field -> canonical sum
}

func (r *e1Run) expect(set map[int]bool) docExpect {
	e := docExpect{Regs: map[string]map[string]bool{}, Ctrs: map[string]string{}}
	if len(set) == 0 {
		return e
	}
	e.Exists = true
	for c := range set {
		if r.commits[c].Delete {
			e.Deleted = true
		}
	}
	for _, f := range allFields() {
		if f.Counter {
			sum := 0.0
			any := false
			for c := range set {
				if v, ok := r.commits[c].Incs[f.Name]; ok {
					sum += v
					any = true
				}
			}
			if !any {
				e.Ctrs[f.Name] = "null"
			} else if f.Float {
				e.Ctrs[f.Name] = canon(sum)
			} else {
				e.Ctrs[f.Name] = canon(int64(sum))
			}
			continue
		}
		fname := f.Name
		mx := r.maximal(set, func(c *mCommit) bool { _, ok := c.Writes[fname]; return ok })
		allowed := map[string]bool{}
		if len(mx) == 0 {
			allowed["null"] = true
		}
		for _, c := range mx {
			allowed[r.commits[c].Writes[fname]] = true
		}
		e.Regs[f.Name] = allowed
	}
	return e
}

// ---- observation --------------------------------------------------------------

func (r *e1Run) dump(node int, showDeleted bool) (map[string]map[string]any, string) {
	userSel := "_docID _deleted"
	for _, f := range r.nodeFields(node) {
		userSel += " " + f.Name
	}
	q := "query { User { " + userSel + " } }"
	if showDeleted {
		q = "query { User(showDeleted: true) { " + userSel + " } }"
	}
	data, errs := r.nodes[node].GQL(q)
	if len(errs) > 0 {
		return nil, strings.Join(errs, "; ")
	}
	out := map[string]map[string]any{}
	for _, row := range rows(data, "User") {
		id, _ := row["_docID"].(string)
		if _, dup := out[id]; dup {
			return nil, "duplicate _docID in listing: " + id
		}
		out[id] = row
	}
	return out, ""
}

// checkNode evaluates the C02 oracle on one node (all docs).
func (r *e1Run) checkNode(step, node int, why string) {
	if !r.props["C02"] && !r.props["C19"] && !r.props["C11"] {
		return
	}
	all, err := r.dump(node, true)
	if err != "" {
		r.res.violate(r.pid("C02"), "query-failed", "query-failed", step, "node %d listing failed after %s: %s", node, why, err)
		return
	}
	r.scanResponse(node, canon(all))
	live, err2 := r.dump(node, false)
	if err2 != "" {
		r.res.violate(r.pid("C02"), "query-failed", "query-failed", step, "node %d listing failed after %s: %s", node, why, err2)
		return
	}
	for slot := 0; slot < r.p.cfg("docs", 1); slot++ {
		id, known := r.docIDs[slot]
		set := r.merged[node][slot]
		e := r.expect(set)
		var row map[string]any
		if known {
			row = all[id]
		}
		if !e.Exists {
			if row != nil {
				r.res.violate(r.pid("C02"), "phantom-doc", "", step, "node %d shows doc slot %d without having merged any commit of it (%s)", node, slot, why)
			}
			continue
		}
		if row == nil {
			r.res.violate(r.pid("C02"), "ancestors-not-visible", "doc-missing", step, "node %d: doc slot %d (%s) merged %d commits but is absent from the showDeleted listing (%s)", node, slot, id, len(set), why)
			return
		}
		del, _ := row["_deleted"].(bool)
		if del != e.Deleted {
			cl := "delete-lost"
			if del {
				cl = "spurious-delete"
			}
			r.res.violate(r.pid("C02"), cl, "", step, "node %d doc %d: _deleted=%v, model says %v (%s)", node, slot, del, e.Deleted, why)
			return
		}
		_, inLive := live[id]
		if inLive == e.Deleted {
			r.res.violate(r.pid("C02"), "resurrected", "live-listing", step, "node %d doc %d: in plain listing=%v but deleted=%v (%s)", node, slot, inLive, e.Deleted, why)
			return
		}
		for _, f := range r.nodeFields(node) {
			if r.hiddenField(node, slot, f.Name) || (r.isEncField(f.Name) && !r.holdsKeys(node, slot)) {
				continue
			}
			got := canon(row[f.Name])
			if f.Counter {
				want := e.Ctrs[f.Name]
				if got != want && !(want == "null" && (got == "0" || got == "null")) {
					r.res.violate(r.pid("C02"), "counter-sum", "counter-sum/"+r.historyClass(node, slot), step,
						"node %d doc %d field %s = %s, sum of merged increments = %s (%s; merged=%v)", node, slot, f.Name, got, want, why, r.setStr(set))
					return
				}
				continue
			}
			if !e.Regs[f.Name][got] {
				cls := r.historyClass(node, slot)
				for c := range set {
					if r.commits[c].Detached[f.Name] {
						cls = "written-by-node-that-ignored-the-field"
					}
				}
				r.res.violate(r.pid("C02"), "register-not-latest", "register-not-latest/"+cls, step,
					"node %d doc %d field %s = %s, causally latest writes = %v (%s; merged=%v)", node, slot, f.Name, got, sortedKeys(e.Regs[f.Name]), why, r.setStr(set))
				return
			}
		}
	}
	for id := range all {
		if _, ok := r.slotOf[id]; !ok {
			r.res.violate(r.pid("C02"), "phantom-doc", "", step, "node %d shows unknown document %s", node, id)
		}
	}
}

// pid maps an oracle's home property to the property under check when the
// oracle is reused by a derived check (C19 reuses the C02 model).
func (r *e1Run) pid(home string) string {
	if r.props[home] {
		return home
	}
	if r.p.Prop == "C19" && r.schemaOps > 0 && (home == "C02" || home == "C01/values") {
		// a run that has changed the schema: what documents show (values, deleted status, agreement between
		// nodes on the fields both know) is exactly what C19 is about. (Head sets and commit queries of
		// nodes on different versions are not: a node cannot resolve a version it was never given.)
		return "C19"
	}
	if home == "C01/values" {
		home = "C01"
	}
	switch home {
	case "C01", "C02", "C03", "C04":
		// an oracle of another claimed property: reported under its own id (the
		// worker only reports violations of the property under check) and the
		// run is not continued on a state the model no longer describes.
		r.stopped = true
		return home
	}
	return r.p.Prop
}

// historyClass classifies the DAG situation of (node, doc) for finding identity.
func (r *e1Run) historyClass(node, slot int) string {
	set := r.merged[node][slot]
	heads := r.maximal(set, nil)
	if len(heads) <= 1 {
		return "single-head"
	}
	h0 := r.height(heads[0])
	for _, h := range heads[1:] {
		if r.height(h) != h0 {
			return "heads-at-different-heights"
		}
	}
	return "heads-equal-height"
}

func (r *e1Run) height(c int) int {
	h := 0
	for _, p := range r.commits[c].Parents {
		if x := r.height(p); x > h {
			h = x
		}
	}
	return h + 1
}

func (r *e1Run) setStr(set map[int]bool) string {
	var xs []int
	for c := range set {
		xs = append(xs, c)
	}
	sort.Ints(xs)
	return fmt.Sprint(xs)
}

// ---- local operations ---------------------------------------------------------

func (r *e1Run) initialValues(slot int) (lits map[string]string, wants map[string]string) {
	rr := newRng(r.p.Seed, uint64(1000+slot))
	lits = map[string]string{}
	wants = map[string]string{}
	lits["name"] = fmt.Sprintf(`"d%d"`, slot)
	wants["name"] = lits["name"]
	for _, f := range userFields[1:] {
		if chance(rr, 55) {
			v := pick(rr, f.Pool)
			if v.Lit == "null" {
				continue
			}
			lits[f.Name] = v.Lit
			wants[f.Name] = v.Want
		}
	}
	if r.p.cfg("col", 0) == 3 {
		// unique index on age: give each slot its own initial age
		lits["age"] = fmt.Sprint(1000 + slot)
		wants["age"] = lits["age"]
	}
	return
}

func inputLit(lits map[string]string) string {
	var parts []string
	for _, k := range sortedKeys(lits) {
		parts = append(parts, k+": "+lits[k])
	}
	return "{" + strings.Join(parts, ", ") + "}"
}

// collectLocal registers the commits a local operation produced.
func (r *e1Run) collectLocal(step, node, slot int, writes map[string]string, incs map[string]float64, del bool) *mCommit {
	synctest.Wait()
	ups := r.nodes[node].TakeUpdates()
	var docUp *event.Update
	for k := range ups {
		u := ups[k]
		if u.DocID != "" {
			if docUp != nil {
				r.res.violate(r.pid("C20"), "extra-update-event", "", step, "more than one document update event for one mutation")
			}
			docUp = &ups[k]
		}
	}
	if docUp == nil {
		r.res.HarnessErr = fmt.Sprintf("step %d: local operation produced no update event", step)
		return nil
	}
	defer func() {
		// the collection-level commit of the same write (branchable collections)
		for k := range ups {
			if u := ups[k]; u.DocID == "" && u.Cid.Defined() {
				if di, ok := r.byCid[docUp.Cid.String()]; ok {
					var parents []int
					for c := range r.colMerged[node] {
						isParent := true
						for o := range r.colMerged[node] {
							if o != c && containsInt(r.colCommits[o].Parents, c) {
								isParent = false
							}
						}
						if isParent {
							parents = append(parents, c)
						}
					}
					sort.Ints(parents)
					mc := &mCol{Idx: len(r.colCommits), C: u.Cid, Origin: node, Doc: di, Parents: parents}
					r.colCommits = append(r.colCommits, mc)
					r.colMerged[node][mc.Idx] = true
					r.res.Stats["collection_level_commits"]++
				}
			}
		}
	}()
	r.scanPayload(node, "update-notification", docUp.Block)
	set := r.mset(node, slot)
	parents := r.maximal(set, nil)
	cs := docUp.Cid.String()
	if k, ok := r.byCid[cs]; ok {
		// content-identical commit produced independently (same genesis / same write on same parents)
		r.ancestors(k, set)
		r.res.Stats["identical_commit_reproduced"]++
		return r.commits[k]
	}
	c := &mCommit{Idx: len(r.commits), Cid: cs, C: docUp.Cid, Doc: slot, Origin: node, Parents: parents,
		Writes: writes, Incs: incs, Delete: del, Block: docUp.Block, VerKey: r.nodeActive[node]}
	for f := range writes {
		if r.hiddenField(node, slot, f) {
			if c.Detached == nil {
				c.Detached = map[string]bool{}
			}
			c.Detached[f] = true
			r.res.Stats["write_of_field_ignored_earlier"]++
		}
	}
	r.commits = append(r.commits, c)
	r.byCid[cs] = c.Idx
	// concurrency statistic
	for _, o := range r.commits[:c.Idx] {
		if o.Doc == slot && !r.isAncestor(o.Idx, c.Idx) {
			r.concur++
			break
		}
	}
	set[c.Idx] = true
	r.order = append(r.order, fmt.Sprintf("L%d:%d<-%v", node, c.Idx, parents))
	r.res.logf("step %d local n%d doc%d commit#%d %s parents=%v", step, node, slot, c.Idx, cidShort(cs), parents)
	return c
}

func (r *e1Run) doCreate(step, node, slot int) {
	if r.keyless(node) {
		node = 0 // keyless nodes never create encrypted documents (cfg is masked on replay too)
		if r.keyless(0) {
			return
		}
	}
	set := r.mset(node, slot)
	if len(set) > 0 {
		r.res.logf("step %d create skipped (node knows doc)", step)
		return
	}
	if _, exists := r.docIDs[slot]; exists && r.p.cfg("sign", 0) == 2 {
		// same docID under two signing identities is outside the generated space
		r.res.logf("step %d create skipped (per-node identities)", step)
		return
	}
	if _, exists := r.docIDs[slot]; exists && r.p.cfg("enc", 0) != 0 {
		return
	}
	lits, wants := r.initialValues(slot)
	if r.encOn() {
		for fi, f := range userFields {
			if r.isEncField(f.Name) && f.Name != "name" {
				if newRng(r.p.Seed, uint64(5000+slot*37+fi)).IntN(100) < 40 {
					// left out of the create: the field is then first written by an update
					if f.Name == "tags" || f.Name == "ratio" || f.Name == "score" {
						delete(lits, f.Name)
						delete(wants, f.Name)
						r.res.Stats["encrypted_fields_first_written_by_update"]++
						if r.leftOut == nil {
							r.leftOut = map[string]bool{}
						}
						r.leftOut[fmt.Sprintf("%d/%s", slot, f.Name)] = true
						continue
					}
				}
				if v, ok := r.secretValue(&f, "create"); ok {
					lits[f.Name], wants[f.Name] = v.Lit, v.Want
				}
			}
		}
		// name stays the slot marker (docID uniqueness) unless encrypted at field level: then make it secret too
		if r.isEncField("name") {
			if v, ok := r.secretValue(fieldByName("name"), "create"); ok {
				lits["name"], wants["name"] = v.Lit, v.Want
			}
		}
	}
	if r.p.cfg("wide", 0) == 1 {
		// the same fillers on every node that creates this slot (the genesis must be identical)
		for k := 1; k <= wideFillers; k++ {
			if (slot+k)%3 != 0 {
				lits[fmt.Sprintf("w%02d", k)] = fmt.Sprintf("%q", fmt.Sprintf("s%d", slot))
			}
		}
	}
	nd := r.nodes[node]
	q := fmt.Sprintf("mutation { create_User(input: %s%s) { _docID } }", inputLit(lits), r.encArgs(slot))
	data, errs := nd.GQL(q)
	if len(errs) > 0 {
		if r.isUniqueErr(errs) {
			r.res.Stats["local_unique_reject"]++
			return
		}
		r.res.HarnessErr = fmt.Sprintf("step %d create failed: %v", step, errs)
		return
	}
	rs := rows(data, "create_User")
	if len(rs) != 1 {
		r.res.HarnessErr = fmt.Sprintf("step %d create returned %d rows", step, len(rs))
		return
	}
	id, _ := rs[0]["_docID"].(string)
	if old, ok := r.docIDs[slot]; ok && old != id {
		r.res.violate(r.pid("C04"), "genesis-not-identical", "docid", step, "slot %d created on node %d got docID %s, earlier %s", slot, node, id, old)
		return
	}
	r.docIDs[slot] = id
	r.slotOf[id] = slot
	if r.creators[slot] == 0 {
		r.creators[slot] = node + 1
	}
	r.noteKeys(node)
	writes := map[string]string{}
	incs := map[string]float64{}
	for k, w := range wants {
		if f := fieldByName(k); f != nil && f.Counter {
			var v float64
			fmt.Sscan(w, &v)
			incs[k] = v
		} else {
			writes[k] = w
		}
	}
	before := len(r.commits)
	c := r.collectLocal(step, node, slot, writes, incs, false)
	if c == nil {
		return
	}
	if c.Idx < before && r.props["C04"] {
		// reproduced genesis: must be byte-identical (same cid ⇒ same bytes); count it
		r.res.Stats["genesis_reproduced"]++
	} else if c.Idx >= before && len(r.commitsOfDoc(slot)) > 1 && len(c.Parents) == 0 {
		r.res.violate(r.pid("C04"), "genesis-not-identical", "cid", step,
			"slot %d: genesis created on node %d has cid %s, differs from the earlier genesis", slot, node, cidShort(c.Cid))
		return
	}
	r.noteSecrets(slot, wants)
	r.afterLocalRecord(node, slot, c)
	r.checkNode(step, node, "local create")
	r.checkDAG(step, node, "local create")
}

func (r *e1Run) commitsOfDoc(slot int) []*mCommit {
	var out []*mCommit
	for _, c := range r.commits {
		if c.Doc == slot && len(c.Parents) == 0 {
			out = append(out, c)
		}
	}
	return out
}

func (r *e1Run) isUniqueErr(errs []string) bool {
	for _, e := range errs {
		if strings.Contains(e, "unique index") || strings.Contains(e, "violates unique") {
			return true
		}
	}
	return false
}

func (r *e1Run) doUpdate(step, node, slot, fsel, vsel int) {
	set := r.mset(node, slot)
	e := r.expect(set)
	if !e.Exists || e.Deleted || !r.holdsKeys(node, slot) {
		r.res.logf("step %d update skipped", step)
		return
	}
	nf := 1 + (vsel>>20)&1
	vsel &= 0xfffff
	lits := map[string]string{}
	writes := map[string]string{}
	incs := map[string]float64{}
	counters := 0
	avail := r.writableFields(node)
	if r.p.cfg("narrow", 0) == 1 {
		avail = []fieldSpec{*fieldByName("name"), *fieldByName("name"), *fieldByName("points")}
		nf = 1
	}
	forced := ""
	if r.props["C19"] && (vsel>>3)&1 == 1 {
		// schema plans: half of the updates write the field the active version received last
		if ex := versionExtras(r.nodeActive[node]); len(ex) > 0 {
			forced = ex[len(ex)-1].Name
			avail = append([]fieldSpec{ex[len(ex)-1]}, avail...)
			fsel = 0
		}
	}
	for k := 0; k < nf; k++ {
		f := avail[mod(fsel+k*7, len(avail))]
		if _, dup := lits[f.Name]; dup {
			continue
		}
		if f.Counter {
			if counters > 0 {
				continue // at most one nonce-drawing field per update (map-order independence)
			}
			counters++
		}
		v := f.Pool[mod(vsel+k*3, len(f.Pool))]
		if f.Name == forced && k == 0 {
			v = f.Pool[1+mod(vsel, len(f.Pool)-1)] // not null
		}
		if r.p.cfg("narrow", 0) == 1 && !f.Counter {
			v = f.Pool[2+mod(vsel, 2)] // "a" or "b"
		}
		if r.encOn() && r.isEncField(f.Name) {
			when := "update"
			if r.p.cfg("enc", 0) == 2 && r.leftOut[fmt.Sprintf("%d/%s", slot, f.Name)] {
				// listed in encryptFields at the create but without a value there
				when = "field-level-first-write"
			}
			if sv, ok := r.secretValue(&f, when); ok {
				v = sv
			}
		}
		lits[f.Name] = v.Lit
		if f.Counter {
			var x float64
			fmt.Sscan(v.Want, &x)
			incs[f.Name] = x
		} else {
			writes[f.Name] = v.Want
		}
	}
	if r.p.cfg("wide", 0) == 1 && (vsel>>5)&1 == 1 {
		lits[fmt.Sprintf("w%02d", 1+mod(vsel>>6, wideFillers))] = fmt.Sprintf("%q", fmt.Sprintf("u%d", step))
	}
	nd := r.nodes[node]
	q := fmt.Sprintf("mutation { update_User(docID: %q, input: %s) { _docID } }", r.docIDs[slot], inputLit(lits))
	data, errs := nd.GQL(q)
	if len(errs) > 0 {
		if r.isUniqueErr(errs) {
			r.res.Stats["local_unique_reject"]++
			return
		}
		r.res.violate(r.pid("C02"), "local-update-failed", "", step, "node %d update of live doc %d failed: %v (%s)", node, slot, errs, q)
		return
	}
	if len(rows(data, "update_User")) != 1 {
		r.res.violate(r.pid("C02"), "local-update-failed", "no-row", step, "node %d update of live doc %d matched %d rows", node, slot, len(rows(data, "update_User")))
		return
	}
	synctest.Wait()
	nd.mu.Lock()
	nup := len(nd.updates)
	nd.mu.Unlock()
	if nup == 0 {
		// an update that changes nothing produces no commit
		r.res.Stats["noop_update"]++
		r.res.logf("step %d update n%d doc%d no-op", step, node, slot)
		r.checkNode(step, node, "no-op update")
		return
	}
	c := r.collectLocal(step, node, slot, writes, incs, false)
	if c == nil {
		return
	}
	r.noteSecrets(slot, writes)
	r.afterLocalRecord(node, slot, c)
	r.checkNode(step, node, "local update")
	r.checkDAG(step, node, "local update")
}

func (r *e1Run) writableFields(node int) []fieldSpec { return r.nodeFields(node) }

func (r *e1Run) doDelete(step, node, slot int) {
	set := r.mset(node, slot)
	e := r.expect(set)
	if !e.Exists || e.Deleted {
		return
	}
	nd := r.nodes[node]
	q := fmt.Sprintf("mutation { delete_User(docID: %q) { _docID } }", r.docIDs[slot])
	_, errs := nd.GQL(q)
	if len(errs) > 0 {
		r.res.violate(r.pid("C02"), "local-delete-failed", "", step, "node %d delete of live doc %d failed: %v", node, slot, errs)
		return
	}
	c := r.collectLocal(step, node, slot, nil, nil, true)
	if c == nil {
		return
	}
	r.afterLocalRecord(node, slot, c)
	r.checkNode(step, node, "local delete")
	r.checkDAG(step, node, "local delete")
}

// ---- delivery -------------------------------------------------------------------

// copyBlocks copies commit c and every block reachable from it that the target
// lacks from a node that has them, through the public rootstore.
func (r *e1Run) copyBlocks(from, to *SimNode, c cid.Cid, seen map[string]bool) error {
	if seen[c.KeyString()] {
		return nil
	}
	seen[c.KeyString()] = true
	raw, err := from.getBlock(c)
	if err != nil {
		return fmt.Errorf("source lacks %s: %w", c, err)
	}
	blk, err := coreblock.GetFromBytes(raw)
	if err != nil {
		// not a DAG block (signature block): copy verbatim
		if !to.hasBlock(c) {
			b, _ := blocks.NewBlockWithCid(raw, c)
			return to.blockstore().Put(to.ctx, b)
		}
		return nil
	}
	for _, l := range blk.AllLinks() {
		if err := r.copyBlocks(from, to, l.Cid, seen); err != nil {
			return err
		}
	}
	if blk.Signature != nil {
		if err := r.copyBlocks(from, to, blk.Signature.Cid, seen); err != nil {
			return err
		}
	}
	if !to.hasBlock(c) {
		b, _ := blocks.NewBlockWithCid(raw, c)
		return to.blockstore().Put(to.ctx, b)
	}
	return nil
}

func (r *e1Run) deliver(step int, c *mCommit, to int) {
	from := r.nodes[c.Origin]
	target := r.nodes[to]
	set := r.mset(to, c.Doc)
	was := set[c.Idx]
	if was {
		r.redeliver++
	} else {
		// below-frontier delivery statistics
		for _, h := range r.maximal(set, nil) {
			if r.height(h) > r.height(c.Idx) {
				r.res.Stats["deliver_below_frontier"]++
				break
			}
		}
	}
	if r.historyClass(to, c.Doc) == "heads-at-different-heights" {
		r.res.Stats["deliver_with_heads_at_different_heights"]++
	}
	if err := r.copyBlocks(from, target, c.C, map[string]bool{}); err != nil {
		r.res.HarnessErr = fmt.Sprintf("step %d copy blocks: %v", step, err)
		return
	}
	r.order = append(r.order, fmt.Sprintf("D%d:%d", to, c.Idx))
	cls := r.historyClass(to, c.Doc)
	if was {
		cls += "/redelivery"
	}
	err := safeMerge(target, event.Merge{DocID: r.docIDs[c.Doc], Cid: c.C, CollectionID: r.colID})
	r.res.logf("step %d deliver commit#%d -> n%d (redelivery=%v) err=%v", step, c.Idx, to, was, err)
	if err != nil {
		if r.p.cfg("col", 0) == 3 && r.isUniqueErr([]string{err.Error()}) {
			// the one relaxation the statement allows; replicas may now legitimately differ
			r.res.Stats["merge_unique_violation"]++
			r.stopped = true
			return
		}
		r.res.violate(r.pid("C01"), "merge-failed", "merge-failed/"+errClass(err)+"/"+cls, step,
			"merge of commit#%d (%s) on node %d failed: %v", c.Idx, cidShort(c.Cid), to, err)
		return
	}
	newly := map[int]bool{}
	r.ancestors(c.Idx, newly)
	for k := range set {
		delete(newly, k)
	}
	r.taintOnMerge(to, newly)
	r.ancestors(c.Idx, set)
	synctest.Wait()
	target.TakeUpdates()
	target.TakeMerges()
	r.checkNode(step, to, fmt.Sprintf("delivery of commit#%d to n%d, %s", c.Idx, to, cls))
	r.checkDAG(step, to, "delivery")
}

// safeMerge turns a panic inside the merge into an error (a panic is a failed merge).
func safeMerge(n *SimNode, m event.Merge) (err error) {
	defer func() {
		if p := recover(); p != nil {
			err = fmt.Errorf("PANIC in merge: %v @ %s", p, panicSite())
		}
	}()
	// the same retry-on-conflict loop as DB.handleMessages
	for i := 0; i < n.DB.MaxTxnRetries(); i++ {
		err = n.DB.VerifExecuteMerge(n.ctx, m)
		if errors.Is(err, corekv.ErrTxnConflict) {
			continue
		}
		break
	}
	return err
}

func errClass(err error) string {
	s := err.Error()
	for _, k := range []string{"PANIC", "key not found", "unique", "could not find", "conflict", "not found"} {
		if strings.Contains(s, k) {
			return strings.ReplaceAll(k, " ", "-")
		}
	}
	if len(s) > 40 {
		s = s[:40]
	}
	return s
}

func (r *e1Run) syncHeads(step, from, to int) {
	if from == to {
		return
	}
	for slot := 0; slot < r.p.cfg("docs", 1); slot++ {
		for _, h := range r.maximal(r.mset(from, slot), nil) {
			c := r.commits[h]
			// blocks come from the sender (it has merged them, hence holds all ancestors)
			saved := c.Origin
			c2 := *c
			c2.Origin = from
			_ = saved
			r.deliver(step, &c2, to)
			if len(r.res.Viols) > 0 || r.stopped || r.res.HarnessErr != "" {
				return
			}
		}
	}
}

// ---- convergence (C01) ------------------------------------------------------------

func (r *e1Run) checkConverged(step int) {
	if !r.props["C01"] && !r.props["C19"] {
		return
	}
	n := len(r.nodes)
	// precondition: every node merged every commit
	for slot := 0; slot < r.p.cfg("docs", 1); slot++ {
		all := map[int]bool{}
		for _, c := range r.commits {
			if c.Doc == slot {
				all[c.Idx] = true
			}
		}
		for i := 0; i < n; i++ {
			if len(r.mset(i, slot)) != len(all) {
				r.res.logf("converged: precondition unmet node %d slot %d", i, slot)
				return
			}
		}
	}
	type view struct{ all, live, heads string }
	var views []view
	for i := 0; i < n; i++ {
		a, e1 := r.dump(i, true)
		l, e2 := r.dump(i, false)
		if e1 != "" || e2 != "" {
			r.res.violate(r.pid("C01"), "query-failed", "", step, "node %d: %s %s", i, e1, e2)
			return
		}
		a = r.projectCommon(a)
		l = r.projectCommon(l)
		hs := r.headsView(i)
		views = append(views, view{canon(a), canon(l), hs})
	}
	for i := 1; i < n; i++ {
		if views[i].all != views[0].all {
			r.res.violate(r.pid("C01/values"), "diverged-values", "diverged-values/"+r.divergeClass(), step, "showDeleted listing differs: n0=%s n%d=%s", short(views[0].all), i, short(views[i].all))
			return
		}
		if views[i].live != views[0].live {
			r.res.violate(r.pid("C01/values"), "diverged-live", "", step, "plain listing differs: n0=%s n%d=%s", short(views[0].live), i, short(views[i].live))
			return
		}
		if r.props["C01"] && views[i].heads != views[0].heads {
			r.res.violate(r.pid("C01"), "diverged-heads", "diverged-heads/"+r.divergeClass(), step, "head commits differ: n0=%s n%d=%s", short(views[0].heads), i, short(views[i].heads))
			return
		}
	}
	r.res.Stats["converged_checked"]++
}

func (r *e1Run) divergeClass() string {
	// classify by whether any node ever had heads at different heights
	if r.res.Stats["deliver_with_heads_at_different_heights"] > 0 {
		return "heads-at-different-heights-seen"
	}
	return "plain"
}

// headsView: latestCommits per document (composite) and per field.
func (r *e1Run) headsView(node int) string {
	var parts []string
	for slot := 0; slot < r.p.cfg("docs", 1); slot++ {
		id, ok := r.docIDs[slot]
		if !ok {
			continue
		}
		data, errs := r.nodes[node].GQL(fmt.Sprintf(`query { latestCommits(docID: %q) { cid } }`, id))
		if len(errs) > 0 {
			r.res.violate(r.pid("C01"), "query-failed", "latestCommits", r.step, "node %d latestCommits(%s): %v", node, id, errs)
			continue
		}
		var cs []string
		for _, row := range rows(data, "latestCommits") {
			cs = append(cs, fmt.Sprint(row["cid"]))
		}
		parts = append(parts, fmt.Sprintf("doc%d:[%s]", slot, joinSorted(cs)))
		for _, f := range userFields {
			data, errs := r.nodes[node].GQL(fmt.Sprintf(`query { latestCommits(docID: %q, fieldName: %q) { cid } }`, id, f.Name))
			if len(errs) > 0 {
				r.res.violate(r.pid("C01"), "query-failed", "latestCommits-field", r.step, "node %d latestCommits(%s,%s): %v", node, id, f.Name, errs)
				continue
			}
			var fs []string
			for _, row := range rows(data, "latestCommits") {
				fs = append(fs, fmt.Sprint(row["cid"]))
			}
			parts = append(parts, fmt.Sprintf("doc%d.%s:[%s]", slot, f.Name, joinSorted(fs)))
		}
	}
	return strings.Join(parts, " ")
}

// stubs filled in by other files (C03, C04, C11, C19)

func containsInt(xs []int, x int) bool {
	for _, y := range xs {
		if y == x {
			return true
		}
	}
	return false
}

func (r *e1Run) colAncestors(c int, into map[int]bool) {
	if into[c] {
		return
	}
	into[c] = true
	for _, p := range r.colCommits[c].Parents {
		r.colAncestors(p, into)
	}
}

// deliverCol merges a collection-level commit on a node that has already merged (document by document) every
// document commit the collection-level commit and its ancestors link: the merge then has nothing to add to any
// document, and must leave documents and their heads as they are.
func (r *e1Run) deliverCol(step int, mc *mCol, to int) {
	anc := map[int]bool{}
	r.colAncestors(mc.Idx, anc)
	for a := range anc {
		dc := r.commits[r.colCommits[a].Doc]
		if !r.mset(to, dc.Doc)[dc.Idx] {
			r.res.logf("step %d coldeliver col#%d -> n%d skipped (document commit#%d not merged there)", step, mc.Idx, to, dc.Idx)
			return
		}
	}
	from, target := r.nodes[mc.Origin], r.nodes[to]
	if err := r.copyBlocks(from, target, mc.C, map[string]bool{}); err != nil {
		r.res.HarnessErr = fmt.Sprintf("step %d copy blocks: %v", step, err)
		return
	}
	was := r.colMerged[to][mc.Idx]
	err := safeMerge(target, event.Merge{DocID: "", Cid: mc.C, CollectionID: r.colID})
	r.res.logf("step %d deliver collection commit col#%d (links commit#%d) -> n%d (redelivery=%v) err=%v", step, mc.Idx, mc.Doc, to, was, err)
	if err != nil {
		r.res.violate(r.pid("C01"), "merge-failed", "merge-failed/"+errClass(err)+"/collection-level", step,
			"merge of collection-level commit col#%d on node %d failed: %v", mc.Idx, to, err)
		return
	}
	for a := range anc {
		r.colMerged[to][a] = true
	}
	r.res.Stats["collection_level_deliveries"]++
	synctest.Wait()
	target.TakeUpdates()
	target.TakeMerges()
	r.checkNode(step, to, fmt.Sprintf("delivery of collection-level commit col#%d to n%d", mc.Idx, to))
	r.checkDAG(step, to, "delivery of a collection-level commit")
}
