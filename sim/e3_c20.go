package verifsim

import (
	"bytes"
	"context"
	"fmt"
	"sort"
	"strings"
	"testing/synctest"
	"time"

	"github.com/sourcenetwork/corekv"

	"github.com/sourcenetwork/defradb/client"
	"github.com/sourcenetwork/defradb/event"
	coreblock "github.com/sourcenetwork/defradb/internal/core/block"
)

// C20 — update notifications are complete, ordered and only for committed changes.

func genC20(seed int64, tier string) *Plan {
	r := newRng(seed, 20)
	p := &Plan{Prop: "C20", Engine: "E3", Seed: seed, Cfg: map[string]int{}}
	p.Cfg["col"] = pick(r, []int{0, 0, 1, 1, 2, 3})
	p.Cfg["rel"] = 0
	p.Cfg["sign"] = pick(r, []int{0, 0, 1})
	p.Cfg["subs"] = 1 + r.IntN(3)
	p.Cfg["faults"] = r.IntN(2)
	n := 5 + r.IntN(26)
	for i := 0; i < n; i++ {
		x := r.IntN(100)
		switch {
		case x < 60:
			p.Steps = append(p.Steps, Step{K: "op", A: r.IntN(14), B: r.IntN(64), C: r.IntN(64), D: r.IntN(64)})
		case x < 80:
			// explicit transaction: A ops, B commit(1)/discard(0), C,D argument seeds
			p.Steps = append(p.Steps, Step{K: "txn", A: 1 + r.IntN(3), B: r.IntN(3), C: r.IntN(64), D: r.IntN(64)})
		default:
			if p.Cfg["faults"] == 1 {
				kinds := []string{"get", "set", "commit", "next", "iter", "has", "delete", "value"}
				p.Steps = append(p.Steps, Step{K: "fault", A: r.IntN(len(kinds)), B: r.IntN(12), S: kinds[r.IntN(len(kinds))]})
			}
		}
	}
	// a second collection with the same field names, written now and then (own stream of choices): its
	// documents are no results of a subscription to User
	if ro := newRng(seed, 202); chance(ro, 35) {
		p.Cfg["other"] = 1
		var steps []Step
		for _, st := range p.Steps {
			steps = append(steps, st)
			if st.K != "fault" && chance(ro, 25) {
				steps = append(steps, Step{K: "pet", A: ro.IntN(3), B: ro.IntN(64), C: ro.IntN(64)})
			}
		}
		p.Steps = steps
	}
	// transactions that commit the same document more than once, on both sides of the subscription's filter
	// (own stream of choices)
	if rt := newRng(seed, 203); true {
		var steps []Step
		for _, st := range p.Steps {
			steps = append(steps, st)
			if st.K != "fault" && chance(rt, 12) {
				steps = append(steps, Step{K: "txnsame", A: rt.IntN(4), B: rt.IntN(3), C: rt.IntN(64), D: rt.IntN(64)})
			}
		}
		p.Steps = steps
	}
	// a burst of commits while one bus subscriber does not read, which then unsubscribes (own stream of
	// choices): its full buffer must not keep the events from the others
	if rb := newRng(seed, 204); chance(rb, 10) && len(p.Steps) > 1 {
		at := rb.IntN(len(p.Steps))
		for at < len(p.Steps) && at > 0 && p.Steps[at-1].K == "fault" {
			at++
		}
		st := Step{K: "burst", A: 105 + rb.IntN(40)}
		p.Steps = append(p.Steps[:at:at], append([]Step{st}, p.Steps[at:]...)...)
	}
	// a subscriber that leaves before step leaveat-1 (own stream of choices)
	if rl := newRng(seed, 201); chance(rl, 50) && len(p.Steps) > 2 {
		p.Cfg["leaveat"] = 1 + rl.IntN(len(p.Steps))
	}
	return p
}

// committed doc-level / collection-level commits in a list of durable batches
type durableCommit struct {
	cid   string
	docID string // "" for collection-level commits
	del   bool
	raw   []byte
}

func commitsInBatches(batches [][]kvWrite) []durableCommit {
	var out []durableCommit
	for _, b := range batches {
		for _, w := range b {
			if w.Val == nil || !bytes.HasPrefix(w.Key, []byte("/db/blocks/")) {
				continue
			}
			blk, err := coreblock.GetFromBytes(w.Val)
			if err != nil {
				continue
			}
			if !blk.Delta.IsComposite() && !blk.Delta.IsCollection() {
				continue
			}
			link, err := blk.GenerateLink()
			if err != nil {
				continue
			}
			dc := durableCommit{cid: link.Cid.String(), raw: w.Val}
			if blk.Delta.IsComposite() {
				dc.docID = string(blk.Delta.GetDocID())
				dc.del = blk.Delta.GetStatus() != 0 && blk.Delta.DocCompositeDelta != nil && blk.Delta.DocCompositeDelta.Status.IsDeleted()
			}
			out = append(out, dc)
		}
	}
	return out
}

func (s *SimStore) batchesSince(k int) [][]kvWrite {
	s.log.mu.Lock()
	defer s.log.mu.Unlock()
	if k > len(s.log.batches) {
		k = len(s.log.batches)
	}
	return append([][]kvWrite(nil), s.log.batches[k:]...)
}

type busRecorder struct {
	sub  event.Subscription
	evs  []event.Update
	done chan struct{}
}

const c20SubFilterAge = 23

func runC20(p *Plan, res *Result) {
	ctx, cancel := context.WithCancel(context.Background())
	defer cancel()
	w := &e3World{p: p, res: res, ctx: ctx, env: &callEnv{seed: p.Seed, col: p.cfg("col", 0)}}
	defer w.close()
	if !w.start() {
		return
	}
	n := w.n
	if p.cfg("other", 0) == 1 {
		if _, err := n.DB.AddSchema(n.reqCtx(), "type Pet {\n  name: String\n  age: Int\n}\n"); err != nil {
			w.fail("AddSchema Pet: %v", err)
			return
		}
	}
	var petIDs []string
	// extra bus subscribers
	var recs []*busRecorder
	for i := 1; i < p.cfg("subs", 1); i++ {
		sub, err := n.DB.Events().Subscribe(event.UpdateName)
		if err != nil {
			w.fail("subscribe: %v", err)
			return
		}
		br := &busRecorder{sub: sub, done: make(chan struct{})}
		recs = append(recs, br)
		go func() {
			defer close(br.done)
			for m := range sub.Message() {
				if u, ok := m.Data.(event.Update); ok {
					n.mu.Lock()
					br.evs = append(br.evs, u)
					n.mu.Unlock()
				}
			}
		}()
	}
	// subscribers come and go: one bus subscriber and one GraphQL subscription leave at a seeded step; those
	// who stay must not notice
	leaveAt := -1
	var leaver event.Subscription
	var leaverCancel context.CancelFunc
	if p.cfg("leaveat", 0) > 0 && len(p.Steps) > 0 {
		leaveAt = min(p.cfg("leaveat", 0)-1, len(p.Steps)-1)
		sub, err := n.DB.Events().Subscribe(event.UpdateName)
		if err != nil {
			w.fail("subscribe: %v", err)
			return
		}
		leaver = sub
		go func() {
			for range sub.Message() {
			}
		}()
		var lctx context.Context
		lctx, leaverCancel = context.WithCancel(ctx)
		if lres := n.DB.ExecRequest(lctx, `subscription { User { _docID } }`); lres.Subscription != nil {
			go func() {
				for range lres.Subscription {
				}
			}()
		}
	}
	n.openSub(fmt.Sprintf("subscription { User(filter: {age: {_ge: %d}}) { _docID age points } }", c20SubFilterAge))
	synctest.Wait()
	n.TakeUpdates()
	n.takeSubResults()
	var pendingFault *Step
	totalEvents := 0
	var shape []string
	for i, s := range p.Steps {
		if len(res.Viols) > 0 || res.HarnessErr != "" {
			break
		}
		setRandStep(fmt.Sprintf("step|%d", i))
		if i == leaveAt {
			n.DB.Events().Unsubscribe(leaver)
			leaverCancel()
			synctest.Wait()
			res.Stats["subscribers_left_mid_run"]++
		}
		if s.K == "fault" {
			ss := s
			pendingFault = &ss
			continue
		}
		users := liveOnes(w.queryUsers(n))
		w.env.users = w.queryUsers(n)
		k0 := n.Store.DurableLen()
		n.Store.BeginWindow(false)
		faulted := false
		if pendingFault != nil {
			var ferr error = ErrSimIO
			if pendingFault.S == "commit" && pendingFault.B%2 == 0 {
				ferr = corekv.ErrTxnConflict
			}
			n.Store.FailNth(pendingFault.S, pendingFault.B, ferr)
			faulted = true
			pendingFault = nil
		}
		var callErr error
		var panicked string
		what := ""
		midTxnEvents := 0
		switch s.K {
		case "burst":
			what = "burst-with-slow-subscriber"
			func() {
				slow, err := n.DB.Events().Subscribe(event.UpdateName)
				if err != nil {
					callErr = err
					return
				}
				var items []string
				for k := 0; k < s.A; k++ {
					items = append(items, fmt.Sprintf(`{name: "burst%d_%d", age: %d}`, i, k, 1000*(i+1)+k))
				}
				_, errs := n.GQL("mutation { create_User(input: [" + strings.Join(items, ", ") + "]) { _docID } }")
				if len(errs) > 0 {
					callErr = fmt.Errorf("%v", errs)
				}
				synctest.Wait()
				// the subscriber that never read gives up
				n.DB.Events().Unsubscribe(slow)
				synctest.Wait()
				res.Stats["bursts_with_a_slow_subscriber"]++
				// is the bus still alive? a message of its own kind must reach a fresh subscriber
				probe, err := n.DB.Events().Subscribe("verif-probe")
				if err != nil {
					callErr = err
					return
				}
				n.DB.Events().Publish(event.NewMessage("verif-probe", nil))
				select {
				case <-probe.Message():
					n.DB.Events().Unsubscribe(probe)
				case <-time.After(10 * time.Minute):
					res.violate("C20", "bus-blocked", "bus-blocked/after-slow-subscriber-left", i,
						"after %d commits in one request a subscriber that had not read its events unsubscribed: 10 minutes later the bus has not delivered a fresh message to a fresh subscriber (the other subscribers have received %d of the events)",
						s.A, len(n.updates))
					w.abandoned = true
				}
			}()
		case "pet":
			what = "other-collection-write"
			var q string
			switch {
			case s.A == 0 || len(petIDs) == 0:
				q = fmt.Sprintf(`mutation { create_Pet(input: {name: "pet%d", age: %d}) { _docID } }`, i, 20+mod(s.B, 8))
			case s.A == 1:
				q = fmt.Sprintf(`mutation { update_Pet(docID: %q, input: {age: %d}) { _docID } }`, petIDs[mod(s.B, len(petIDs))], 20+mod(s.C, 8))
			default:
				q = fmt.Sprintf(`mutation { delete_Pet(docID: %q) { _docID } }`, petIDs[mod(s.B, len(petIDs))])
			}
			data, errs := n.GQL(q)
			if len(errs) > 0 {
				callErr = fmt.Errorf("%v", errs)
			} else if rs := rows(data, "create_Pet"); len(rs) == 1 {
				petIDs = append(petIDs, fmt.Sprint(rs[0]["_docID"]))
			}
			res.Stats["writes_to_another_collection"]++
		case "op":
			ac := buildCall(Step{K: "call", A: s.A, B: s.B, C: s.C, D: s.D}, w.env)
			what = ac.Kind
			callErr, panicked = safeCall(ac, n, &handles{fresh: true})
		case "txnsame":
			what = fmt.Sprintf("txnsame(%d,%s)", s.A, []string{"discard", "commit", "commit"}[mod(s.B, 3)])
			func() {
				defer func() {
					if pv := recover(); pv != nil {
						panicked = fmt.Sprintf("%v @ %s", pv, panicSite())
					}
				}()
				txn, err := n.DB.NewTxn(n.reqCtx(), false)
				if err != nil {
					callErr = err
					return
				}
				defer txn.Discard(n.reqCtx())
				// ages on both sides of the filter (>= c20SubFilterAge)
				a1, a2 := c20SubFilterAge+1+mod(s.C, 3), c20SubFilterAge-1-mod(s.D, 3)
				if s.C&4 != 0 {
					a1, a2 = a2, a1
				}
				var qs []string
				id := ""
				if s.A == 0 || len(users) == 0 {
					// create, then update what was created
					r := txn.ExecRequest(n.reqCtx(), fmt.Sprintf(`mutation { create_User(input: {name: "ts%d", age: %d, points: 1}) { _docID } }`, i, a1))
					if len(r.GQL.Errors) > 0 {
						callErr = r.GQL.Errors[0]
						return
					}
					if m, ok := r.GQL.Data.(map[string]any); ok {
						if rs := rows(m, "create_User"); len(rs) == 1 {
							id = fmt.Sprint(rs[0]["_docID"])
						}
					}
					if id == "" {
						callErr = fmt.Errorf("create returned no document")
						return
					}
					qs = append(qs, fmt.Sprintf(`mutation { update_User(docID: %q, input: {age: %d}) { _docID } }`, id, a2))
				} else {
					id = fmt.Sprint(users[mod(s.D, len(users))]["_docID"])
					qs = append(qs, fmt.Sprintf(`mutation { update_User(docID: %q, input: {age: %d}) { _docID } }`, id, a1),
						fmt.Sprintf(`mutation { update_User(docID: %q, input: {age: %d}) { _docID } }`, id, a2))
				}
				if s.A == 3 {
					qs = append(qs, fmt.Sprintf(`mutation { delete_User(docID: %q) { _docID } }`, id))
				}
				for _, q := range qs {
					r := txn.ExecRequest(n.reqCtx(), q)
					if len(r.GQL.Errors) > 0 {
						callErr = r.GQL.Errors[0]
						return
					}
					synctest.Wait()
					n.mu.Lock()
					midTxnEvents += len(n.updates)
					n.mu.Unlock()
				}
				if mod(s.B, 3) == 0 {
					return // discard
				}
				callErr = txn.Commit(n.reqCtx())
				res.Stats["txns_committing_one_document_repeatedly"]++
			}()
		case "txn":
			what = fmt.Sprintf("txn(%d ops,%s)", s.A, []string{"discard", "commit", "commit"}[mod(s.B, 3)])
			func() {
				defer func() {
					if pv := recover(); pv != nil {
						panicked = fmt.Sprintf("%v @ %s", pv, panicSite())
					}
				}()
				txn, err := n.DB.NewTxn(n.reqCtx(), false)
				if err != nil {
					callErr = err
					return
				}
				defer txn.Discard(n.reqCtx())
				for k := 0; k < s.A; k++ {
					var q string
					switch mod(s.C+k, 3) {
					case 0:
						q = fmt.Sprintf(`mutation { create_User(input: {name: "tx%d_%d", age: %d, points: 1}) { _docID } }`, i, k, 20+mod(s.D+k, 8))
					case 1:
						if len(users) == 0 {
							continue
						}
						q = fmt.Sprintf(`mutation { update_User(docID: %q, input: {age: %d, points: 2}) { _docID } }`, users[mod(s.D+k, len(users))]["_docID"], 20+mod(s.D+k+3, 8))
					case 2:
						if len(users) < 2 {
							continue
						}
						q = fmt.Sprintf(`mutation { delete_User(docID: %q) { _docID } }`, users[mod(s.D+k, len(users))]["_docID"])
					}
					r := txn.ExecRequest(n.reqCtx(), q)
					if len(r.GQL.Errors) > 0 {
						callErr = r.GQL.Errors[0]
						return
					}
					// nothing may be announced before the commit
					synctest.Wait()
					n.mu.Lock()
					midTxnEvents += len(n.updates)
					n.mu.Unlock()
				}
				if mod(s.B, 3) == 0 {
					return // discard
				}
				callErr = txn.Commit(n.reqCtx())
			}()
		}
		fired := len(n.Store.Fired()) > 0
		n.Store.ClearFaults()
		synctest.Wait()
		evs := n.TakeUpdates()
		subRes := n.takeSubResults()
		cls := what
		if i := strings.Index(cls, "("); i > 0 {
			cls = cls[:i]
		}
		if faulted && fired {
			res.Stats["faults_fired"]++
			cls += "/fault"
		}
		if panicked != "" {
			res.violate("C20", "panic", "panic/"+cls, i, "%s panicked: %s", what, panicked)
			break
		}
		if midTxnEvents > 0 {
			res.violate("C20", "notification-before-commit", "notification-before-commit/"+cls, i, "%d update notification(s) were published before the transaction committed", midTxnEvents)
			break
		}
		newCommits := commitsInBatches(n.Store.batchesSince(k0))
		res.logf("step %d %s err=%v fired=%v commits=%d events=%d sub=%d", i, what, callErr != nil, fired, len(newCommits), len(evs), len(subRes))
		// (1) exactly one notification per new document-level commit (+ one per collection-level commit)
		want := map[string]int{}
		for _, c := range newCommits {
			want[c.cid]++
		}
		got := map[string]int{}
		for _, e := range evs {
			got[e.Cid.String()]++
		}
		for c, k := range want {
			if got[c] != k {
				clause := "notification-missing"
				if got[c] > k {
					clause = "notification-duplicated"
				}
				res.violate("C20", clause, clause+"/"+cls, i, "%s (err=%v): commit %s became durable, %d notification(s) carry it", what, callErr, cidShort(c), got[c])
				break
			}
		}
		for c, k := range got {
			if want[c] == 0 {
				clause := "notification-without-commit"
				res.violate("C20", clause, clause+"/"+cls, i, "%s (err=%v): %d notification(s) for %s which did not become durable in this call", what, callErr, k, cidShort(c))
				break
			}
		}
		if len(res.Viols) > 0 {
			break
		}
		if callErr != nil && len(evs) > 0 {
			res.violate("C20", "notification-for-failed-call", "notification-for-failed-call/"+cls, i, "%s reported %v but %d notification(s) were published", what, callErr, len(evs))
			break
		}
		// (2) identifier and bytes: cid = hash of the block; block readable from the store
		for _, e := range evs {
			sum, err := e.Cid.Prefix().Sum(e.Block)
			if err != nil || !sum.Equals(e.Cid) {
				res.violate("C20", "cid-not-hash-of-block", cls, i, "notification for %s carries bytes that do not hash to it", cidShort(e.Cid.String()))
				break
			}
			stored, err := n.getBlock(e.Cid)
			if err != nil || !bytes.Equal(stored, e.Block) {
				res.violate("C20", "block-not-readable", cls, i, "block %s announced by a notification is not readable from the store (%v)", cidShort(e.Cid.String()), err)
				break
			}
			if e.DocID != "" {
				found := false
				for _, c := range newCommits {
					if c.cid == e.Cid.String() && c.docID == e.DocID {
						found = true
					}
				}
				if !found {
					res.violate("C20", "wrong-docid", cls, i, "notification %s names document %s", cidShort(e.Cid.String()), e.DocID)
					break
				}
			}
		}
		// (3) every subscriber sees the same sequence
		n.mu.Lock()
		for ri, br := range recs {
			a, b := cidSeq(evs), cidSeq(br.evs)
			br.evs = nil
			if a != b {
				res.violate("C20", "subscribers-disagree", cls, i, "subscriber 0 saw %s, subscriber %d saw %s", a, ri+1, b)
			}
		}
		n.mu.Unlock()
		// (4) GraphQL subscription: one result per committed change that matches its filter
		wantSub := 0
		uncertain := 0
		userDocs := map[string]bool{}
		if ud, errs := n.GQL(`query { User(showDeleted: true) { _docID } }`); len(errs) == 0 {
			for _, row := range rows(ud, "User") {
				userDocs[fmt.Sprint(row["_docID"])] = true
			}
		}
		for _, c := range newCommits {
			if c.docID == "" {
				continue
			}
			if !userDocs[c.docID] {
				// a document of another collection is no result of a subscription to User
				res.Stats["commits_of_other_collections"]++
				continue
			}
			if c.del {
				uncertain++ // the statement does not say whether a delete "matches"
				continue
			}
			data, errs := n.GQL(fmt.Sprintf(`query { User(cid: %q, docID: %q, filter: {age: {_ge: %d}}) { _docID } }`, c.cid, c.docID, c20SubFilterAge))
			if len(errs) > 0 {
				uncertain++
				continue
			}
			wantSub += len(rows(data, "User"))
		}
		gotSub := 0
		for _, sr := range subRes {
			if len(sr.Errs) > 0 {
				res.violate("C20", "subscription-error", cls, i, "subscription result carries errors: %v", sr.Errs)
				break
			}
			nrows := 0
			switch v := sr.Data.(type) {
			case map[string]any:
				nrows = len(rows(v, "User"))
			case []map[string]any:
				nrows = len(v)
			}
			// a result with an empty dataset is a result too (for a change that does not match)
			gotSub++
			if nrows == 0 {
				res.Stats["subscription_empty_results"]++
			}
		}
		if gotSub < wantSub || gotSub > wantSub+uncertain {
			clause := "subscription-missed"
			if gotSub > wantSub {
				clause = "subscription-extra"
			}
			res.violate("C20", clause, clause+"/"+cls, i, "%s: %d committed changes match the subscription filter (%d deletes undetermined), %d results were delivered", what, wantSub, uncertain, gotSub)
			break
		}
		totalEvents += len(evs)
		res.Stats["notifications"] += len(evs)
		res.Stats["subscription_results"] += gotSub
		if callErr != nil {
			res.Stats["failed_calls"]++
		}
		if s.K == "txn" {
			res.Stats["explicit_txns"]++
		}
		shape = append(shape, fmt.Sprintf("%s:%d:%v", cls, len(evs), callErr != nil))
	}
	for _, br := range recs {
		n.DB.Events().Unsubscribe(br.sub)
	}
	synctest.Wait()
	res.Shape = hashStrings(shape...)
	res.Nontrivial = totalEvents > 0 && (res.Stats["failed_calls"] > 0 || res.Stats["explicit_txns"] > 0)
	_ = client.Active
	_ = sort.Strings
}

func cidSeq(evs []event.Update) string {
	var xs []string
	for _, e := range evs {
		xs = append(xs, cidShort(e.Cid.String()))
	}
	return strings.Join(xs, ",")
}
