package verifsim

import (
	"context"
	"fmt"
	"os"
	"path/filepath"
	"testing/synctest"
)

// C14 — a node restarted on its store is indistinguishable from one that never stopped.

var c14Kinds = []int{0, 1, 2, 3, 4, 5, 6, 7, 8, 9, 10, 11, 12, 13, 14, 15, 16, 17, 18, 20}

func genC14(seed int64, tier string) *Plan {
	if seed%4 == 3 {
		// a fourth of the histories exercise the peer configuration (replicators, P2P collections) ...
		if seed%8 == 7 {
			// ... half of them the replication duties a restarted sender still has
			return genC14Sender(seed, tier)
		}
		return genC14Peer(seed, tier)
	}
	r := newRng(seed, 14)
	p := &Plan{Prop: "C14", Engine: "E3", Seed: seed, Cfg: map[string]int{}}
	p.Cfg["col"] = pick(r, []int{0, 1, 2, 3, 4, 5})
	p.Cfg["rel"] = r.IntN(2)
	p.Cfg["sign"] = pick(r, []int{0, 0, 1})
	p.Cfg["disk"] = pick(r, []int{0, 0, 0, 1})
	n := 6 + r.IntN(25)
	restarts := 0
	for i := 0; i < n; i++ {
		k := pick(r, c14Kinds)
		p.Steps = append(p.Steps, Step{K: "op", A: k, B: r.IntN(64), C: r.IntN(64), D: r.IntN(64)})
		// restart points favour "right after schema / index / sequence-consuming operations"
		pr := 12
		switch callKindName(k) {
		case "createIndex", "dropIndex", "addSchema", "patchSchema", "setActiveVersion":
			pr = 45
		}
		if restarts < 5 && chance(r, pr) {
			restarts++
			if chance(r, 50) {
				p.Steps = append(p.Steps, Step{K: "restart"})
			} else {
				// crash inside the next operation, right after its C-th storage commit (0: before any)
				p.Steps = append(p.Steps, Step{K: "crash", C: r.IntN(3)})
			}
		}
	}
	p.Steps = append(p.Steps, Step{K: "restart"})
	p.Steps = append(p.Steps, Step{K: "op", A: 14, B: r.IntN(4), C: r.IntN(2), D: 1})
	p.Steps = append(p.Steps, Step{K: "op", A: 16, B: r.IntN(3)})
	p.Steps = append(p.Steps, Step{K: "op", A: 0, B: r.IntN(64), C: r.IntN(64), D: r.IntN(64)})
	return p
}

func runC14(p *Plan, res *Result) {
	if p.cfg("peer", 0) == 1 {
		runC14Peer(p, res)
		return
	}
	if p.cfg("peer", 0) == 2 {
		runC15As(p, res, "C14")
		return
	}
	ctx, cancel := context.WithCancel(context.Background())
	defer cancel()
	installRand(p.Seed)
	wx := &e3World{p: p, res: res, ctx: ctx, env: &callEnv{seed: p.Seed, col: p.cfg("col", 0), rel: p.cfg("rel", 0) == 1}}
	wy := &e3World{p: p, res: res, ctx: ctx, env: &callEnv{seed: p.Seed, col: p.cfg("col", 0), rel: p.cfg("rel", 0) == 1}}
	var dir string
	if p.cfg("disk", 0) == 1 {
		dir = scratchDir(p.Seed)
		defer os.RemoveAll(dir)
	}
	startW := func(w *e3World, sub string) bool {
		if !w.startOn(func() *SimStore {
			if dir != "" {
				d := filepath.Join(dir, sub)
				_ = os.MkdirAll(d, 0o755)
				return NewSimStoreDir(d)
			}
			return NewSimStore()
		}) {
			return false
		}
		return true
	}
	if !startW(wx, "x") || !startW(wy, "y") {
		wx.close()
		wy.close()
		return
	}
	defer wx.close()
	defer wy.close()
	compare := func(i int, when, cls string) bool {
		dx, errx := fullDump(wx.n, true)
		dy, erry := fullDump(wy.n, true)
		if erry != nil {
			wy.fail("twin dump: %v", erry)
			return false
		}
		if errx != nil {
			res.violate("C14", "unreadable-after-restart", "unreadable-after-restart/"+cls, i, "%s: restarted node cannot be read: %v", when, errx)
			return false
		}
		if df := diffDump(dy, dx); df != "" {
			res.violate("C14", "differs-from-twin", "differs-from-twin/"+cls+"/"+dumpSection(df), i, "%s: never-restarted twin => restarted node: %s", when, df)
			return false
		}
		return true
	}
	lastKind := "start"
	restartedSince := false
	pendingCrash := -1
	var shape []string
	for i, s := range p.Steps {
		if len(res.Viols) > 0 || res.HarnessErr != "" {
			return
		}
		switch s.K {
		case "restart":
			if !wx.restartAt(-1) {
				return
			}
			synctest.Wait()
			wx.n.TakeUpdates()
			res.Stats["clean_restarts"]++
			restartedSince = true
			shape = append(shape, lastKind+">restart")
			if !compare(i, "after clean restart following "+lastKind, "clean/"+lastKind) {
				return
			}
		case "crash":
			pendingCrash = s.C
		case "op":
			setRandStep(fmt.Sprintf("step|%d", i))
			wy.env.users = wy.queryUsers(wy.n)
			wx.env.users = wy.env.users
			wx.env.versions, wy.env.versions = nil, nil
			step := Step{K: "call", A: s.A, B: s.B, C: s.C, D: s.D}
			acY := buildCall(step, wy.env)
			acX := buildCall(step, wy.env)
			kind := acY.Kind
			if pendingCrash >= 0 {
				// X executes the call and crashes right after its c-th commit; only durable state survives
				c := pendingCrash
				pendingCrash = -1
				kx0 := wx.n.Store.DurableLen()
				wx.n.Store.FenceAfterCommits(c)
				setRandStep(fmt.Sprintf("step|%d", i))
				_, _ = safeCall(acX, wx.n, &handles{fresh: true})
				wx.n.Crash()
				grew := wx.n.Store.DurableLen() - kx0
				nst := wx.n.Store.Reopen(-1)
				setRandStep("restart")
				nx, err := startNode(wx.ctx, "n", nst, wx.opts)
				if err != nil {
					res.violate("C14", "cannot-restart-after-crash", "cannot-restart-after-crash/"+kind, i, "crash inside %s after %d commit(s): restart failed: %v", kind, c, err)
					return
				}
				wx.n = nx
				synctest.Wait()
				wx.n.TakeUpdates()
				res.Stats["crashes"]++
				restartedSince = true
				if grew > 0 {
					// the call's effect became durable before the crash: the twin executes it
					ky0 := wy.n.Store.DurableLen()
					setRandStep(fmt.Sprintf("step|%d", i))
					_, _ = safeCall(acY, wy.n, &handles{fresh: true})
					synctest.Wait()
					wy.n.TakeUpdates()
					if wy.n.Store.DurableLen()-ky0 != grew {
						// an operation spanning several commits was cut in the middle: not a restart question
						res.Stats["crash_inside_multi_commit_op"]++
						res.logf("step %d crash inside %s: %d of %d commits durable; run ends", i, kind, grew, wy.n.Store.DurableLen()-ky0)
						res.Shape = hashStrings(shape...)
						return
					}
					res.Stats["crash_after_commit"]++
				} else {
					res.Stats["crash_before_commit"]++
				}
				shape = append(shape, fmt.Sprintf("%s>crash@%d", kind, c))
				if !compare(i, fmt.Sprintf("after crash inside %s at commit boundary %d", kind, c), "crash/"+kind) {
					return
				}
				lastKind = kind
				continue
			}
			setRandStep(fmt.Sprintf("step|%d", i))
			errY, panY := safeCall(acY, wy.n, &handles{fresh: true})
			setRandStep(fmt.Sprintf("step|%d", i))
			errX, panX := safeCall(acX, wx.n, &handles{fresh: true})
			synctest.Wait()
			wx.n.TakeUpdates()
			wy.n.TakeUpdates()
			res.logf("step %d %s errY=%v errX=%v", i, kind, errY, errX)
			cls := "later-op/" + kind
			if !restartedSince {
				cls = "never-restarted/" + kind // a difference here is harness nondeterminism
			}
			if panX != panY {
				res.violate("C14", "behaves-differently", "behaves-differently/panic/"+cls, i, "%s: twin panic=%q restarted node panic=%q", kind, panY, panX)
				return
			}
			if fmt.Sprint(errX) != fmt.Sprint(errY) {
				res.violate("C14", "behaves-differently", "behaves-differently/result/"+cls, i, "%s: twin returned %v, restarted node returned %v", kind, errY, errX)
				return
			}
			if restartedSince {
				if !compare(i, "after "+kind+" following a restart", cls) {
					return
				}
				res.Stats["ops_compared_after_restart"]++
			}
			lastKind = kind
		}
	}
	res.Shape = hashStrings(shape...)
	res.ShapeSet = sortedCopy(shape)
	res.Nontrivial = len(shape) > 0
}

// startOn is start() with a store constructor.
func (w *e3World) startOn(mk func() *SimStore) bool {
	saved := newStoreHook
	newStoreHook = mk
	defer func() { newStoreHook = saved }()
	return w.start()
}
