package verifsim

import (
	"context"
	"fmt"
	"os"
	"sort"
	"strings"
	"sync"
	"time"

	"github.com/anishathalye/porcupine"

	"github.com/sourcenetwork/defradb/client"
	"github.com/sourcenetwork/defradb/event"
)

type e4bEngine struct{}

func (e4bEngine) Name() string { return "E4b" }

func (e4bEngine) Gen(prop string, seed int64, tier string) *Plan {
	r := newRng(seed, 16)
	p := &Plan{Prop: prop, Engine: "E4b", Seed: seed, Cfg: map[string]int{}}
	p.Cfg["tasks"] = 2 + r.IntN(3)
	p.Cfg["mode"] = pick(r, []int{0, 0, 0, 1}) // 1: all tasks share one concurrent transaction
	p.Cfg["col"] = pick(r, []int{0, 0, 2})
	p.Cfg["docs"] = 1 + r.IntN(2)
	p.Cfg["sched"] = r.IntN(1 << 30)
	p.Cfg["maxsteps"] = 1500
	if p.Cfg["mode"] == 1 {
		// every step of a shared transaction involves tasks blocked on its mutex, which costs a
		// goroutine dump each: keep these runs short
		if p.Cfg["tasks"] > 3 {
			p.Cfg["tasks"] = 3
		}
		p.Cfg["maxsteps"] = 700
	}
	for t := 0; t < p.Cfg["tasks"]; t++ {
		n := 1 + r.IntN(3)
		for k := 0; k < n; k++ {
			kind := pick(r, []int{0, 0, 0, 0, 1, 2, 3, 3, 4, 5, 6})
			if p.Cfg["mode"] == 1 {
				kind = pick(r, []int{0, 0, 0, 1, 3})
			}
			p.Steps = append(p.Steps, Step{K: "call", A: t, B: kind, C: r.IntN(8), D: 1 + r.IntN(9)})
		}
	}
	// an index that is created while other calls write, and stays (own stream of choices)
	if rk := newRng(seed, 161); p.Cfg["mode"] == 0 && chance(rk, 35) {
		t := rk.IntN(p.Cfg["tasks"])
		at := rk.IntN(len(p.Steps) + 1)
		steps := append([]Step{}, p.Steps[:at]...)
		steps = append(steps, Step{K: "call", A: t, B: 7})
		p.Steps = append(steps, p.Steps[at:]...)
	}
	return p
}

// one recorded API call
type e4bOp struct {
	Task   int
	Kind   string
	Doc    string
	Arg    int
	Call   int64
	Return int64
	OK     bool
	Conf   bool
	Err    string
	Out    string
}

type e4bInput struct {
	Kind string
	Doc  string
	Arg  int
}

type e4bOutput struct {
	OK   bool
	Conf bool
	Err  string
	Out  string
}

type e4bDocState struct {
	Exists  bool
	Deleted bool
	Age     int
	Points  int
}

func (d e4bDocState) view() string {
	if !d.Exists || d.Deleted {
		return "absent"
	}
	return fmt.Sprintf("age=%d points=%d", d.Age, d.Points)
}

// sequential model for porcupine: one document per partition
var e4bModel = porcupine.Model{
	Partition: func(history []porcupine.Operation) [][]porcupine.Operation {
		m := map[string][]porcupine.Operation{}
		for _, op := range history {
			d := op.Input.(e4bInput).Doc
			m[d] = append(m[d], op)
		}
		var keys []string
		for k := range m {
			keys = append(keys, k)
		}
		sort.Strings(keys)
		var out [][]porcupine.Operation
		for _, k := range keys {
			out = append(out, m[k])
		}
		return out
	},
	Init: func() any { return e4bDocState{} },
	Step: func(state, input, output any) (bool, any) {
		st := state.(e4bDocState)
		in := input.(e4bInput)
		out := output.(e4bOutput)
		if out.Conf {
			// a call that reported a conflict must be a no-op
			return true, st
		}
		live := st.Exists && !st.Deleted
		switch in.Kind {
		case "init":
			return true, e4bDocState{Exists: true, Age: in.Arg, Points: 1}
		case "update":
			if out.OK {
				if !live {
					return false, st
				}
				st.Age = 30 + in.Arg
				st.Points += in.Arg
				return true, st
			}
			return !live, st // failing otherwise is only legal when the document is not there
		case "delete":
			if out.OK {
				if !live {
					return false, st
				}
				st.Deleted = true
				return true, st
			}
			return !live, st
		case "read":
			if !out.OK {
				return false, st
			}
			return out.Out == st.view(), st
		}
		return true, st
	},
	DescribeOperation: func(input, output any) string {
		return fmt.Sprintf("%+v -> %+v", input, output)
	},
}

func (e4bEngine) Run(p *Plan) *Result {
	res := newResult()
	defer res.finish()
	runC16(p, res)
	return res
}

func runC16(p *Plan, res *Result) {
	defer func() {
		if r := recover(); r != nil {
			res.HarnessErr = fmt.Sprintf("panic: %v", r)
		}
	}()
	ctx, cancel := context.WithCancel(context.Background())
	defer cancel()
	installRand(p.Seed)
	st := NewSimStore()
	n, err := startNode(ctx, "n", st, NodeOpts{})
	if err != nil {
		res.HarnessErr = "start: " + err.Error()
		return
	}
	defer n.Close()
	cols, err := n.DB.AddSchema(n.reqCtx(), e3SDL(p.cfg("col", 0), false))
	if err != nil {
		res.HarnessErr = "schema: " + err.Error()
		return
	}
	colID := cols[0].CollectionID
	// pre-state
	var docs []string
	var history []porcupine.Operation
	var clock int64
	for d := 0; d < max(1, p.cfg("docs", 1)); d++ {
		data, errs := n.GQL(fmt.Sprintf(`mutation { create_User(input: {name: "d%d", age: %d, points: 1}) { _docID } }`, d, 20+d))
		if len(errs) > 0 {
			res.HarnessErr = fmt.Sprintf("create: %v", errs)
			return
		}
		id := fmt.Sprint(rows(data, "create_User")[0]["_docID"])
		docs = append(docs, id)
		clock += 2
		history = append(history, porcupine.Operation{ClientId: 0, Input: e4bInput{Kind: "init", Doc: id, Arg: 20 + d}, Call: clock - 1, Output: e4bOutput{OK: true}, Return: clock})
	}
	// a remote commit for the "merge" call kind
	var remote *event.Update
	{
		rm, err := startNode(ctx, "rm", NewSimStore(), NodeOpts{})
		if err == nil {
			if _, err := rm.DB.AddSchema(rm.reqCtx(), e3SDL(p.cfg("col", 0), false)); err == nil {
				rm.GQL(`mutation { create_User(input: {name: "remote", age: 77, points: 3}) { _docID } }`)
				var ups []event.Update
				for w := 0; w < 2000 && len(ups) == 0; w++ {
					time.Sleep(time.Millisecond)
					ups = rm.TakeUpdates()
				}
				for _, u := range ups {
					if u.DocID != "" {
						uu := u
						remote = &uu
						e1 := &e1Run{}
						_ = e1.copyBlocks(rm, n, u.Cid, map[string]bool{})
					}
				}
			}
			rm.Close()
		}
	}
	time.Sleep(10 * time.Millisecond)
	n.TakeUpdates()

	k := p.cfg("tasks", 2)
	sched := &scheduler{maxStep: p.cfg("maxsteps", 1500)}
	rr := newRng(int64(p.cfg("sched", 0)), 99)
	for i := 0; i < 4096; i++ {
		sched.plan = append(sched.plan, rr.IntN(64))
	}
	calls := make([][]Step, k)
	for _, s := range p.Steps {
		if s.K == "call" && s.A >= 0 && s.A < k {
			calls[s.A] = append(calls[s.A], s)
		}
	}
	var sharedTxn client.Txn
	if p.cfg("mode", 0) == 1 {
		sharedTxn, err = n.DB.NewConcurrentTxn(n.reqCtx(), false)
		if err != nil {
			res.HarnessErr = "NewConcurrentTxn: " + err.Error()
			return
		}
	}
	ops := make([][]e4bOp, k)
	for t := 0; t < k; t++ {
		sched.tasks = append(sched.tasks, &schedTask{id: t})
	}
	var wg sync.WaitGroup
	ready := make(chan struct{}, k)
	for t := 0; t < k; t++ {
		wg.Add(1)
		go func(t int) {
			defer wg.Done()
			task := sched.tasks[t]
			setGID(task)
			ready <- struct{}{}
			sched.park(task, "start")
			for _, s := range calls[t] {
				op := e4bCall(n, sharedTxn, sched, docs, colID, remote, t, s)
				ops[t] = append(ops[t], op)
			}
			sched.finish(task)
		}(t)
	}
	for t := 0; t < k; t++ {
		<-ready
	}
	// from here on the gid table is read-only; store operations yield to the scheduler
	st.SetRaw(sched.yield)
	okRun := sched.run()
	wg.Wait()
	st.SetRaw(nil)
	if !okRun {
		res.HarnessErr = "scheduler watchdog: no task made progress for 60 s: " + sched.stuck
		return
	}
	res.Stats["sched_steps"] += sched.pos
	if sched.overBudget {
		res.Stats["runs_over_step_budget"]++
	}
	res.Stats["foreign_goroutine_store_ops"] += sched.foreign
	// The log carries which task ran at every step and what every call returned. The kind of storage
	// operation a task was parked at is not logged: DefraDB iterates over Go maps (fields of a document,
	// documents of a merge), so the order of a task's own operations is outside the seed's control.
	var order []byte
	for i := 0; i+1 < len(sched.trace); i += 2 {
		order = append(order, sched.trace[i])
	}
	res.logf("schedule %s", hashStrings(string(order)))
	if os.Getenv("VERIF_TRACE") != "" {
		res.logf("trace %s", string(sched.trace))
	}
	for t := range ops {
		for _, op := range ops[t] {
			res.logf("task %d %s doc=%s ok=%v conflict=%v", t, op.Kind, cidShort(op.Doc), op.OK, op.Conf)
		}
	}
	// shared transaction: commit, then the effects of all successful calls must be there
	if sharedTxn != nil {
		if err := sharedTxn.Commit(n.reqCtx()); err != nil {
			res.violate("C16", "shared-txn-commit-failed", "", 0, "commit of the shared concurrent transaction failed: %v", err)
			return
		}
	}
	// panics inside calls
	for t := range ops {
		for _, op := range ops[t] {
			if strings.HasPrefix(op.Err, "PANIC") {
				res.violate("C16", "panic", "panic/"+op.Kind, 0, "task %d %s panicked: %s", t, op.Kind, op.Err)
				return
			}
		}
	}
	// final reads, then linearizability against the sequential model
	clock = sched.clock + 10
	for _, id := range docs {
		data, errs := n.GQL(fmt.Sprintf(`query { User(docID: %q) { age points } }`, id))
		out := "absent"
		if rs := rows(data, "User"); len(errs) == 0 && len(rs) == 1 {
			out = fmt.Sprintf("age=%v points=%v", rs[0]["age"], rs[0]["points"])
		}
		clock += 2
		history = append(history, porcupine.Operation{ClientId: k + 1, Input: e4bInput{Kind: "read", Doc: id}, Call: clock - 1, Output: e4bOutput{OK: true, Out: out}, Return: clock})
	}
	// an index whose creation reported success holds every document that the calls that reported success left
	for t := range ops {
		for _, op := range ops[t] {
			if op.Kind != "index-create" || !op.OK {
				continue
			}
			di, ei := n.GQL(`query { User(filter: {age: {_ge: 0}}) { _docID age } }`)
			dp, ep := n.GQL(`query { User { _docID age } }`)
			if len(ei) > 0 || len(ep) > 0 {
				res.violate("C16", "index-incomplete", "index-incomplete/query-failed", 0, "after an index was created concurrently: %v %v", ei, ep)
				return
			}
			var want []map[string]any
			for _, row := range rows(dp, "User") {
				if row["age"] != nil {
					want = append(want, row)
				}
			}
			a, b := canon(sortRows(rows(di, "User"), "_docID")), canon(sortRows(want, "_docID"))
			if a != b {
				res.violate("C16", "index-incomplete", "index-incomplete/concurrent-writes", 0,
					"an index on age was created by task %d while other calls were writing; both reported success, but a request served from the index returns %s and the collection holds %s", t, short(a), short(b))
				return
			}
			res.Stats["kept_indexes_checked"]++
		}
	}
	nconf, nok := 0, 0
	var shape []string
	for t := range ops {
		for _, op := range ops[t] {
			if op.Conf {
				nconf++
			}
			if op.OK {
				nok++
			}
			shape = append(shape, fmt.Sprintf("%d:%s:%v", t, op.Kind, op.OK))
			if op.Doc == "" {
				continue
			}
			if sharedTxn != nil && op.Kind == "read" {
				continue // reads inside the shared transaction see uncommitted interleavings of the others
			}
			history = append(history, porcupine.Operation{ClientId: t + 1, Input: e4bInput{Kind: op.Kind, Doc: op.Doc, Arg: op.Arg},
				Call: op.Call, Output: e4bOutput{OK: op.OK, Conf: op.Conf, Err: op.Err, Out: op.Out}, Return: op.Return})
		}
	}
	res.Stats["calls_ok"] += nok
	res.Stats["calls_conflict"] += nconf
	verdict, info := porcupine.CheckOperationsVerbose(e4bModel, history, 20*time.Second)
	switch verdict {
	case porcupine.Illegal:
		cls := "independent-calls"
		if sharedTxn != nil {
			cls = "shared-concurrent-txn"
		}
		var lines []string
		clause := "not-linearizable"
		for _, op := range history {
			lines = append(lines, fmt.Sprintf("[%d,%d] c%d %s", op.Call, op.Return, op.ClientId, e4bModel.DescribeOperation(op.Input, op.Output)))
			if out, ok := op.Output.(e4bOutput); ok && strings.Contains(out.Err, "corrupted index") {
				// a write that fails with "corrupted index" while another call creates that index: the symptom, on the
				// writer's side, of index creation not being isolated from concurrent writes (a finding of its own)
				clause, cls = "index-incomplete", "concurrent-writes"
			}
		}
		_ = info
		res.violate("C16", clause, clause+"/"+cls, 0,
			"no sequential order of the calls explains their results and the final state (a call that reported success lost its effect, or a conflicting call left one): %s", strings.Join(lines, " | "))
	case porcupine.Unknown:
		res.Stats["linearizability_inconclusive"]++
	default:
		res.Stats["histories_linearizable"]++
	}
	res.Shape = hashStrings(string(sched.trace))
	res.Nontrivial = nok > 0 && sched.pos > 20
	_ = os.Stderr
}

//go:norace
func setGID(t *schedTask) { t.gid = curGID() }

//go:norace
func (s *scheduler) tick() int64 {
	s.clock++
	return s.clock
}

// e4bCall executes one API call of a task and records its outcome.
func e4bCall(n *SimNode, shared client.Txn, sched *scheduler, docs []string, colID string, remote *event.Update, task int, s Step) (op e4bOp) {
	op.Task = task
	doc := docs[mod(s.C, len(docs))]
	exec := func(q string) (map[string]any, []string) {
		if shared != nil {
			return gqlOn(n.reqCtx(), shared, q)
		}
		return n.GQL(q)
	}
	op.Call = sched.tick()
	defer func() {
		if r := recover(); r != nil {
			op.Err = fmt.Sprintf("PANIC: %v @ %s", r, panicSite())
		}
		op.Return = sched.tick()
	}()
	record := func(errs []string, okRows int) {
		if len(errs) > 0 {
			op.Err = strings.Join(errs, ";")
			if strings.Contains(op.Err, "conflict") {
				op.Conf = true
			}
			return
		}
		op.OK = okRows > 0
		if !op.OK {
			op.Err = "no rows"
		}
	}
	switch s.B {
	case 0: // update (counter increment + register)
		op.Kind, op.Doc, op.Arg = "update", doc, s.D
		data, errs := exec(fmt.Sprintf(`mutation { update_User(docID: %q, input: {age: %d, points: %d}) { _docID } }`, doc, 30+s.D, s.D))
		record(errs, len(rows(data, "update_User")))
	case 1: // read
		op.Kind, op.Doc = "read", doc
		data, errs := exec(fmt.Sprintf(`query { User(docID: %q) { age points } }`, doc))
		if len(errs) > 0 {
			record(errs, 0)
			return
		}
		op.OK = true
		op.Out = "absent"
		if rs := rows(data, "User"); len(rs) == 1 {
			op.Out = fmt.Sprintf("age=%v points=%v", rs[0]["age"], rs[0]["points"])
		}
	case 2: // delete
		op.Kind, op.Doc = "delete", doc
		data, errs := exec(fmt.Sprintf(`mutation { delete_User(docID: %q) { _docID } }`, doc))
		record(errs, len(rows(data, "delete_User")))
	case 3: // create a new document (own id space per task)
		op.Kind = "create"
		data, errs := exec(fmt.Sprintf(`mutation { create_User(input: {name: "t%d_%d", age: %d, points: 1}) { _docID } }`, task, s.D, 40+s.C))
		record(errs, len(rows(data, "create_User")))
	case 4: // filtered update
		op.Kind = "filtered-update"
		_, errs := exec(fmt.Sprintf(`mutation { update_User(filter: {name: {_eq: "nobody%d"}}, input: {flag: true}) { _docID } }`, s.D))
		record(errs, 1)
	case 5: // index create / drop
		op.Kind = "index-ddl"
		col, err := n.DB.GetCollectionByName(n.reqCtx(), "User")
		if err != nil {
			op.Err = err.Error()
			return
		}
		name := fmt.Sprintf("ix_t%d", task)
		_, err = col.CreateIndex(n.reqCtx(), client.IndexCreateRequest{Name: name, Fields: []client.IndexedFieldDescription{{Name: "flag"}}})
		if err == nil {
			err = col.DropIndex(n.reqCtx(), name)
		}
		if err != nil {
			op.Err = err.Error()
			op.Conf = strings.Contains(op.Err, "conflict")
			return
		}
		op.OK = true
	case 7: // index created and kept
		op.Kind = "index-create"
		col, err := n.DB.GetCollectionByName(n.reqCtx(), "User")
		if err != nil {
			op.Err = err.Error()
			return
		}
		_, err = col.CreateIndex(n.reqCtx(), client.IndexCreateRequest{Name: fmt.Sprintf("ix_keep_t%d", task), Fields: []client.IndexedFieldDescription{{Name: "age"}}})
		if err != nil {
			op.Err = err.Error()
			op.Conf = strings.Contains(op.Err, "conflict")
			return
		}
		op.OK = true
	case 6: // incoming merge, with the retry-on-conflict loop of handleMessages
		op.Kind = "merge"
		if remote == nil {
			op.OK = true
			return
		}
		err := safeMerge(n, event.Merge{DocID: remote.DocID, Cid: remote.Cid, CollectionID: colID})
		if err != nil {
			op.Err = err.Error()
			op.Conf = strings.Contains(op.Err, "conflict")
			return
		}
		op.OK = true
	}
	return op
}
