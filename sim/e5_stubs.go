package verifsim

func genC09(seed int64, tier string) *Plan { return &Plan{Prop: "C09", Engine: "E5", Seed: seed, Cfg: map[string]int{}} }
func genC10(seed int64, tier string) *Plan { return &Plan{Prop: "C10", Engine: "E5", Seed: seed, Cfg: map[string]int{}} }
func runC09(p *Plan, res *Result)          {}
func runC10(p *Plan, res *Result)          {}
