package verifsim
