package verifsim

func genC10(seed int64, tier string) *Plan { return &Plan{Prop: "C10", Engine: "E5", Seed: seed, Cfg: map[string]int{}} }
func runC10(p *Plan, res *Result)          {}
