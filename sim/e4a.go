package verifsim

import (
	"context"
	"fmt"
	"sort"
	"strings"
	"testing/synctest"

	"github.com/sourcenetwork/defradb/client"
)

// E4a — transaction interleaver (C06). One driver goroutine issues the
// operations of 2-3 explicit transactions and non-transactional calls in a
// seeded interleaving; DefraDB transactions are optimistic and never block each
// other, so interleaving at API-call granularity needs no threads.

type e4aEngine struct{}

func (e4aEngine) Name() string { return "E4a" }

func (e4aEngine) Gen(prop string, seed int64, tier string) *Plan {
	r := newRng(seed, 6)
	p := &Plan{Prop: prop, Engine: "E4a", Seed: seed, Cfg: map[string]int{}}
	p.Cfg["col"] = pick(r, []int{0, 0, 2, 4, 1})
	p.Cfg["txns"] = 2 + r.IntN(2)
	p.Cfg["pre"] = 1 + r.IntN(3)
	nt := p.Cfg["txns"]
	// per-transaction scripts
	type ev struct{ s Step }
	var scripts [][]Step
	for t := 0; t < nt; t++ {
		var sc []Step
		// a third of the transactions are opened read-only and only read
		ro := 0
		if chance(r, 33) {
			ro = 1
		}
		sc = append(sc, Step{K: "begin", A: t, B: ro})
		n := 1 + r.IntN(4)
		for k := 0; k < n; k++ {
			kinds := []int{0, 1, 1, 1, 2, 3, 3, 4, 5, 6}
			if ro == 1 {
				kinds = []int{3, 3, 4, 5, 6}
			}
			sc = append(sc, Step{K: "op", A: t, B: pick(r, kinds), C: r.IntN(64), D: r.IntN(64)})
		}
		if chance(r, 75) {
			sc = append(sc, Step{K: "commit", A: t})
		} else {
			sc = append(sc, Step{K: "discard", A: t})
		}
		scripts = append(scripts, sc)
	}
	// non-transactional script
	var outside []Step
	for k := 0; k < r.IntN(5); k++ {
		outside = append(outside, Step{K: "op", A: -1, B: pick(r, []int{0, 1, 1, 2, 3, 3, 4}), C: r.IntN(64), D: r.IntN(64)})
	}
	scripts = append(scripts, outside)
	// seeded interleaving preserving each script's order
	idx := make([]int, len(scripts))
	for {
		var avail []int
		for i, sc := range scripts {
			if idx[i] < len(sc) {
				avail = append(avail, i)
			}
		}
		if len(avail) == 0 {
			break
		}
		i := pick(r, avail)
		p.Steps = append(p.Steps, scripts[i][idx[i]])
		idx[i]++
	}
	return p
}

type mdoc struct {
	Name    string
	Age     int
	Points  int
	Deleted bool
}

type mtxn struct {
	txn      client.Txn
	view     map[string]mdoc
	modified map[string]bool
	startSeq int
	open     bool
	dead     bool
	readOnly bool
	// commits (cids of the heads of the documents it wrote) produced inside the transaction, and its end
	cids      map[string]bool
	committed bool
}

type e4aRun struct {
	outsideCids map[string]bool // head commits produced by non-transactional calls (content-identical ones are legitimately visible)
	p         *Plan
	res       *Result
	n         *SimNode
	committed map[string]mdoc
	txns      map[int]*mtxn
	seq       int
	// commit log for the lost-update oracle: seq of commit -> modified docs
	commits []struct {
		seq  int
		docs map[string]bool
		who  string
	}
	shape    []string
	overlaps int
}

func (e4aEngine) Run(p *Plan) *Result {
	res := newResult()
	defer res.finish()
	runInBubble(res, func() { runC06(p, res) })
	return res
}

func copyView(m map[string]mdoc) map[string]mdoc {
	out := make(map[string]mdoc, len(m))
	for k, v := range m {
		out[k] = v
	}
	return out
}

func runC06(p *Plan, res *Result) {
	ctx, cancel := context.WithCancel(context.Background())
	defer cancel()
	installRand(p.Seed)
	setRandStep("start")
	n, err := startNode(ctx, "n", NewSimStore(), NodeOpts{})
	if err != nil {
		res.HarnessErr = "start: " + err.Error()
		return
	}
	defer n.Close()
	if _, err := n.DB.AddSchema(n.reqCtx(), e3SDL(p.cfg("col", 0), false)); err != nil {
		res.HarnessErr = "schema: " + err.Error()
		return
	}
	r := &e4aRun{p: p, res: res, n: n, committed: map[string]mdoc{}, txns: map[int]*mtxn{}}
	for k := 0; k < p.cfg("pre", 1); k++ {
		setRandStep(fmt.Sprintf("pre|%d", k))
		r.applyOp(-1-k, nil, 0, k, k, fmt.Sprintf("pre%d", k))
	}
	for i, s := range p.Steps {
		if len(res.Viols) > 0 || res.HarnessErr != "" {
			break
		}
		setRandStep(fmt.Sprintf("step|%d", i))
		r.seq++
		switch s.K {
		case "begin":
			txn, err := n.DB.NewTxn(n.reqCtx(), s.B == 1)
			if err != nil {
				res.HarnessErr = "NewTxn: " + err.Error()
				return
			}
			if s.B == 1 {
				res.Stats["read_only_txns"]++
			}
			r.txns[s.A] = &mtxn{txn: txn, view: copyView(r.committed), modified: map[string]bool{}, startSeq: r.seq, open: true, readOnly: s.B == 1}
			r.shape = append(r.shape, fmt.Sprintf("b%d", s.A))
		case "op":
			if s.A < 0 {
				r.applyOp(i, nil, s.B, s.C, s.D, fmt.Sprintf("o%d", i))
				r.shape = append(r.shape, fmt.Sprintf("x:%d", s.B))
				r.noteOutsideCids()
				continue
			}
			t := r.txns[s.A]
			if t == nil || !t.open || t.dead {
				continue
			}
			if t.readOnly && s.B < 3 {
				continue
			}
			r.applyOp(i, t, s.B, s.C, s.D, fmt.Sprintf("t%d_%d", s.A, i))
			r.shape = append(r.shape, fmt.Sprintf("%d:%d", s.A, s.B))
			if s.B < 3 && !t.dead && len(res.Viols) == 0 {
				r.noteCids(t)
				r.checkCids(i, "while the transaction is open")
			}
		case "commit", "discard":
			t := r.txns[s.A]
			if t == nil || !t.open {
				continue
			}
			t.open = false
			if s.K == "discard" || t.dead {
				t.txn.Discard(n.reqCtx())
				r.shape = append(r.shape, fmt.Sprintf("d%d", s.A))
				r.checkOutside(i, "after discard")
				r.checkCids(i, "after discard")
				continue
			}
			err := t.txn.Commit(n.reqCtx())
			r.shape = append(r.shape, fmt.Sprintf("c%d:%v", s.A, err == nil))
			if err != nil {
				if !strings.Contains(err.Error(), "conflict") {
					res.violate("C06", "commit-failed-without-conflict", "", i, "commit of transaction %d failed with %v", s.A, err)
					return
				}
				res.Stats["commit_conflicts"]++
				t.txn.Discard(n.reqCtx())
				r.checkOutside(i, "after failed commit")
				r.checkCids(i, "after failed commit")
				continue
			}
			res.Stats["commits_ok"]++
			t.committed = true
			// lost-update oracle: no transaction that committed after this one started modified a common document
			for _, c := range r.commits {
				if c.seq > t.startSeq {
					for d := range t.modified {
						if c.docs[d] {
							res.violate("C06", "lost-update", "lost-update/both-committed", i,
								"transaction %d (started at event %d) committed although %s, which modified the same document %s, committed at event %d",
								s.A, t.startSeq, c.who, d, c.seq)
							return
						}
					}
				}
			}
			for d := range t.modified {
				r.committed[d] = t.view[d]
			}
			r.commits = append(r.commits, struct {
				seq  int
				docs map[string]bool
				who  string
			}{r.seq, t.modified, fmt.Sprintf("transaction %d", s.A)})
			r.checkOutside(i, "after commit")
			r.checkCids(i, "after commit")
		}
	}
	// close whatever is still open
	for _, t := range r.txns {
		if t.open {
			t.txn.Discard(n.reqCtx())
		}
	}
	synctest.Wait()
	res.Shape = hashStrings(r.shape...)
	res.Nontrivial = r.overlaps > 0
	res.Stats["overlapping_modifications"] += r.overlaps
}

func (r *e4aRun) exec(t *mtxn, q string) (map[string]any, []string) {
	if t != nil {
		return gqlOn(r.n.reqCtx(), t.txn, q)
	}
	return r.n.GQL(q)
}

func viewRows(view map[string]mdoc, pred func(mdoc) bool) string {
	var ids []string
	for id, d := range view {
		if !d.Deleted && (pred == nil || pred(d)) {
			ids = append(ids, id)
		}
	}
	sort.Strings(ids)
	var out []map[string]any
	for _, id := range ids {
		d := view[id]
		out = append(out, map[string]any{"_docID": id, "name": d.Name, "age": int64(d.Age), "points": int64(d.Points)})
	}
	if out == nil {
		out = []map[string]any{}
	}
	return canon(out)
}

// applyOp executes one operation inside transaction t (or outside when t == nil) and checks what it reads.
func (r *e4aRun) applyOp(i int, t *mtxn, kind, c, d int, tag string) {
	view := r.committed
	who := "a non-transactional call"
	if t != nil {
		view = t.view
		who = "the transaction"
	}
	var live []string
	for id, doc := range view {
		if !doc.Deleted {
			live = append(live, id)
		}
	}
	sort.Strings(live)
	fail := func(q string, errs []string) bool {
		if len(errs) == 0 {
			return false
		}
		if strings.Contains(strings.Join(errs, ";"), "conflict") {
			r.res.Stats["op_conflicts"]++
			if t != nil {
				t.dead = true
			}
			return true
		}
		r.res.violate("C06", "operation-failed", "operation-failed/"+fmt.Sprint(kind), i, "%s failed in %s: %v", q, who, errs)
		return true
	}
	noteWrite := func(id string) {
		if t != nil {
			t.modified[id] = true
			// statistic: does this write overlap with another open transaction's write?
			for _, o := range r.txns {
				if o != t && o.open && o.modified[id] {
					r.overlaps++
				}
			}
		} else {
			r.commits = append(r.commits, struct {
				seq  int
				docs map[string]bool
				who  string
			}{r.seq, map[string]bool{id: true}, "a non-transactional write"})
			for _, o := range r.txns {
				if o.open && o.modified[id] {
					r.overlaps++
				}
			}
		}
	}
	const sel = "_docID name age points"
	switch kind {
	case 0: // create
		name, age, pts := tag, 20+mod(c, 9), 1+mod(d, 5)
		q := fmt.Sprintf(`mutation { create_User(input: {name: %q, age: %d, points: %d}) { _docID } }`, name, age, pts)
		data, errs := r.exec(t, q)
		if fail(q, errs) {
			return
		}
		id := fmt.Sprint(rows(data, "create_User")[0]["_docID"])
		view[id] = mdoc{Name: name, Age: age, Points: pts}
		noteWrite(id)
	case 1: // update
		if len(live) == 0 {
			return
		}
		id := live[mod(c, len(live))]
		age, inc := 30+mod(d, 9), 1+mod(c+d, 4)
		q := fmt.Sprintf(`mutation { update_User(docID: %q, input: {age: %d, points: %d}) { _docID } }`, id, age, inc)
		_, errs := r.exec(t, q)
		if fail(q, errs) {
			return
		}
		doc := view[id]
		doc.Age = age
		doc.Points += inc
		view[id] = doc
		noteWrite(id)
	case 2: // delete
		if len(live) < 2 {
			return
		}
		id := live[mod(c, len(live))]
		q := fmt.Sprintf(`mutation { delete_User(docID: %q) { _docID } }`, id)
		_, errs := r.exec(t, q)
		if fail(q, errs) {
			return
		}
		doc := view[id]
		doc.Deleted = true
		view[id] = doc
		noteWrite(id)
	case 3, 4, 5, 6: // reads
		var q, want, what string
		switch kind {
		case 3:
			q, want, what = "query { User { "+sel+" } }", viewRows(view, nil), "listing"
		case 4:
			if len(live) == 0 {
				return
			}
			id := live[mod(c, len(live))]
			q, what = fmt.Sprintf(`query { User(docID: %q) { %s } }`, id, sel), "read-by-id"
			want = viewRows(map[string]mdoc{id: view[id]}, nil)
		case 5:
			x := 20 + mod(c, 16)
			q, what = fmt.Sprintf(`query { User(filter: {age: {_ge: %d}}) { %s } }`, x, sel), "filtered-read"
			want = viewRows(view, func(m mdoc) bool { return m.Age >= x })
		case 6:
			if len(live) == 0 {
				return
			}
			nm := view[live[mod(c, len(live))]].Name
			q, what = fmt.Sprintf(`query { User(filter: {name: {_eq: %q}}) { %s } }`, nm, sel), "read-by-indexed-field"
			want = viewRows(view, func(m mdoc) bool { return m.Name == nm })
		}
		data, errs := r.exec(t, q)
		if fail(q, errs) {
			return
		}
		got := canon(sortRows(rows(data, "User"), "_docID"))
		if got == "null" {
			got = "[]"
		}
		r.res.Stats["reads_checked"]++
		if got != want {
			clause := "read-not-snapshot-plus-own-writes"
			if t == nil {
				clause = "outside-read-not-committed-state"
			}
			r.res.violate("C06", clause, clause+"/"+what, i, "%s in %s returned %s, expected %s", q, who, short(got), short(want))
		}
	}
}

// checkOutside: a non-transactional read sees exactly the committed state.
func (r *e4aRun) checkOutside(i int, when string) {
	data, errs := r.n.GQL("query { User { _docID name age points } }")
	if len(errs) > 0 {
		r.res.violate("C06", "outside-read-failed", "", i, "%v", errs)
		return
	}
	got := canon(sortRows(rows(data, "User"), "_docID"))
	if got == "null" {
		got = "[]"
	}
	if want := viewRows(r.committed, nil); got != want {
		clause := "commit-not-atomic-or-leak"
		r.res.violate("C06", clause, clause+"/"+strings.ReplaceAll(when, " ", "-"), i, "%s a non-transactional listing returned %s, committed state is %s", when, short(got), short(want))
	}
}

// noteCids records the head commits of the documents the transaction has modified, as the transaction sees them.
func (r *e4aRun) noteCids(t *mtxn) {
	if t.cids == nil {
		t.cids = map[string]bool{}
	}
	for id := range t.modified {
		data, errs := gqlOn(r.n.reqCtx(), t.txn, fmt.Sprintf(`query { latestCommits(docID: %q) { cid } }`, id))
		if len(errs) > 0 {
			continue
		}
		for _, row := range rows(data, "latestCommits") {
			t.cids[fmt.Sprint(row["cid"])] = true
		}
	}
}

// checkCids: a commit made inside a transaction can be fetched by its cid from outside exactly when the
// transaction has committed - not while it is open, and never after it was discarded or failed.
func (r *e4aRun) checkCids(i int, when string) {
	committedCids := map[string]bool{}
	for c := range r.outsideCids {
		committedCids[c] = true
	}
	for _, t := range r.txns {
		if t.committed {
			for c := range t.cids {
				committedCids[c] = true
			}
		}
	}
	for k, t := range r.txns {
		for c := range t.cids {
			if committedCids[c] && !t.committed {
				continue // the same content was committed by another transaction
			}
			data, errs := r.n.GQL(fmt.Sprintf(`query { commits(cid: %q) { cid } }`, c))
			visible := len(errs) == 0 && len(rows(data, "commits")) > 0
			r.res.Stats["commit_lookups_by_cid"]++
			if visible && !t.committed {
				state := "open"
				if !t.open {
					state = "discarded or failed"
				}
				r.res.violate("C06", "uncommitted-write-visible", "uncommitted-write-visible/commit-by-cid/"+strings.ReplaceAll(state, " ", "-"), i,
					"%s: commits(cid: %s) outside returns the commit made inside transaction %d, which is %s", when, cidShort(c), k, state)
				return
			}
			if !visible && t.committed {
				r.res.violate("C06", "committed-write-invisible", "commit-by-cid", i,
					"%s: commits(cid: %s) outside does not return the commit of the committed transaction %d: %v", when, cidShort(c), k, errs)
				return
			}
		}
	}
}

// noteOutsideCids records the current heads of all committed documents (called after a non-transactional write).
func (r *e4aRun) noteOutsideCids() {
	if r.outsideCids == nil {
		r.outsideCids = map[string]bool{}
	}
	for id := range r.committed {
		data, errs := r.n.GQL(fmt.Sprintf(`query { latestCommits(docID: %q) { cid } }`, id))
		if len(errs) > 0 {
			continue
		}
		for _, row := range rows(data, "latestCommits") {
			r.outsideCids[fmt.Sprint(row["cid"])] = true
		}
	}
}
