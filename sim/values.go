package verifsim

import (
	"fmt"
	"sort"
	"strings"
)

// fieldSpec describes one field of the E1/E3 test collection.
type fieldSpec struct {
	Name    string
	GQLType string // as written in the SDL
	Counter bool
	Float   bool
	// pool of (GraphQL literal, canonical JSON of the expected read-back)
	Pool []valLit
}

type valLit struct {
	Lit  string // GraphQL input literal
	Want string // canonical JSON of what a query must return
}

var userFields = []fieldSpec{
	{Name: "name", GQLType: "String", Pool: []valLit{
		{`null`, `null`}, {`""`, `""`}, {`"a"`, `"a"`}, {`"b"`, `"b"`}, {`"zz"`, `"zz"`}, {`"a b"`, `"a b"`}, {`"é"`, `"é"`},
	}},
	{Name: "age", GQLType: "Int", Pool: []valLit{
		{`null`, `null`}, {`0`, `0`}, {`1`, `1`}, {`-1`, `-1`}, {`21`, `21`}, {`255`, `255`}, {`256`, `256`}, {`2147483647`, `2147483647`}, {`-2147483648`, `-2147483648`},
	}},
	{Name: "flag", GQLType: "Boolean", Pool: []valLit{
		{`null`, `null`}, {`true`, `true`}, {`false`, `false`},
	}},
	{Name: "ratio", GQLType: "Float", Float: true, Pool: []valLit{
		{`null`, `null`}, {`0.5`, `0.5`}, {`-1.25`, `-1.25`}, {`1024.0`, `1024`}, {`0.0`, `0`},
	}},
	{Name: "tags", GQLType: "[String!]", Pool: []valLit{
		{`null`, `null`}, {`[]`, `[]`}, {`["x"]`, `["x"]`}, {`["x","y"]`, `["x","y"]`}, {`["y","x"]`, `["y","x"]`},
	}},
	{Name: "points", GQLType: "Int @crdt(type: pncounter)", Counter: true, Pool: []valLit{
		{`1`, `1`}, {`2`, `2`}, {`5`, `5`}, {`-3`, `-3`}, {`10`, `10`}, {`100`, `100`}, {`1000`, `1000`}, {`-40`, `-40`},
	}},
	{Name: "score", GQLType: "Float @crdt(type: pcounter)", Counter: true, Float: true, Pool: []valLit{
		{`0.5`, `0.5`}, {`1.25`, `1.25`}, {`2.0`, `2`}, {`8.0`, `8`},
	}},
}

// extraFields are added by schema patches (C19), in this order.
var extraFields = []fieldSpec{
	{Name: "extra1", GQLType: "String", Pool: []valLit{{`null`, `null`}, {`"p"`, `"p"`}, {`"q"`, `"q"`}, {`""`, `""`}}},
	{Name: "extra2", GQLType: "Int", Pool: []valLit{{`null`, `null`}, {`7`, `7`}, {`-7`, `-7`}, {`0`, `0`}}},
	{Name: "extra3", GQLType: "Boolean", Pool: []valLit{{`null`, `null`}, {`true`, `true`}, {`false`, `false`}}},
}
var extraKinds = []int{11, 4, 2}

func allFields() []fieldSpec {
	return append(append([]fieldSpec{}, userFields...), extraFields...)
}

func fieldByName(n string) *fieldSpec {
	for i := range userFields {
		if userFields[i].Name == n {
			return &userFields[i]
		}
	}
	for i := range extraFields {
		if extraFields[i].Name == n {
			return &extraFields[i]
		}
	}
	return nil
}

func userFieldNames() []string {
	var out []string
	for _, f := range userFields {
		out = append(out, f.Name)
	}
	return out
}

// userSDL builds the collection SDL. order permutes field order (a node
// agreement precondition, not a claim of C13).
// wideFillers: in "wide" plans the collection has this many more String fields (w01...), so that the short
// ids of its fields reach two digits. The model does not follow their values; their blocks and heads are
// part of the graph the C04 oracle scans.
const wideFillers = 16

func userSDL(colKind int, order int) string { return userSDLWide(colKind, order, false) }

func userSDLWide(colKind int, order int, wide bool) string {
	idx := make([]int, len(userFields))
	for i := range idx {
		idx[i] = i
	}
	if order%2 == 1 {
		sort.Sort(sort.Reverse(sort.IntSlice(idx)))
	}
	var b strings.Builder
	b.WriteString("type User")
	if colKind == 1 {
		b.WriteString(" @branchable")
	}
	b.WriteString(" {\n")
	for _, i := range idx {
		f := userFields[i]
		dir := ""
		if colKind == 2 && f.Name == "name" {
			dir = " @index"
		}
		if colKind == 3 && f.Name == "age" {
			dir = " @index(unique: true)"
		}
		if colKind == 4 && (f.Name == "name" || f.Name == "age") {
			dir = " @index"
		}
		fmt.Fprintf(&b, "  %s: %s%s\n", f.Name, f.GQLType, dir)
	}
	if wide {
		for k := 1; k <= wideFillers; k++ {
			fmt.Fprintf(&b, "  w%02d: String\n", k)
		}
	}
	b.WriteString("}\n")
	return b.String()
}

// numeric canonical strings: counters are summed in float64 with exactly
// representable increments, then printed the way encoding/json prints them.
func numCanon(v float64) string {
	return canon(v)
}
