package verifsim

// minimise: delta debugging over plan steps, then argument shrinking, keeping a
// candidate only if the same oracle clause class fires.
func minimise(eng Engine, plan *Plan, v *Violation) *Plan {
	same := func(p *Plan) bool {
		res := eng.Run(p)
		if res.HarnessErr != "" {
			return false
		}
		for _, w := range res.Viols {
			if w.Prop == v.Prop && w.Class == v.Class {
				return true
			}
		}
		return false
	}
	cur := plan.Clone()
	budget := 400
	// ddmin over steps
	n := 2
	for len(cur.Steps) >= 2 && budget > 0 {
		chunk := (len(cur.Steps) + n - 1) / n
		reduced := false
		for start := 0; start < len(cur.Steps) && budget > 0; start += chunk {
			end := start + chunk
			if end > len(cur.Steps) {
				end = len(cur.Steps)
			}
			cand := cur.Clone()
			cand.Steps = append(append([]Step(nil), cur.Steps[:start]...), cur.Steps[end:]...)
			budget--
			if len(cand.Steps) > 0 && same(cand) {
				cur = cand
				if n > 2 {
					n--
				}
				reduced = true
				break
			}
		}
		if !reduced {
			if chunk <= 1 {
				break
			}
			n *= 2
			if n > len(cur.Steps) {
				n = len(cur.Steps)
			}
		}
	}
	// shrink configuration values
	for _, k := range sortedKeys(cur.Cfg) {
		for cur.Cfg[k] > 0 && budget > 0 {
			cand := cur.Clone()
			cand.Cfg[k]--
			budget--
			if same(cand) {
				cur = cand
			} else {
				break
			}
		}
	}
	// shrink step arguments toward 0
	for i := range cur.Steps {
		for _, fld := range []int{0, 1, 2, 3} {
			if budget <= 0 {
				break
			}
			cand := cur.Clone()
			s := &cand.Steps[i]
			p := []*int{&s.A, &s.B, &s.C, &s.D}[fld]
			if *p == 0 {
				continue
			}
			*p = 0
			budget--
			if same(cand) {
				cur = cand
			}
		}
	}
	return cur
}
