package verifsim

import (
	"bytes"
	"encoding/binary"
	"fmt"
	"math"
	"strings"

	blocks "github.com/ipfs/go-block-format"
	"github.com/ipfs/go-cid"

	coreblock "github.com/sourcenetwork/defradb/internal/core/block"
	"github.com/sourcenetwork/defradb/internal/datastore"
	"github.com/sourcenetwork/defradb/internal/encryption"
)

// C11 — encrypted fields never leave the node in clear.

type secretPat struct {
	pat   []byte
	field string
	when  string // create | update
	text  bool   // textual form (only searched in responses)
}

var c11EncFieldLevel = []string{"name", "ratio", "score", "tags"}

func (r *e1Run) encOn() bool { return r.p.cfg("enc", 0) != 0 }

// encFieldList: the field-level encryption list of the run: a seeded subset (>=1 field) of the
// candidates in a seeded order (the order a user writes them in is arbitrary).
func (r *e1Run) encFieldList() []string {
	sel := r.p.cfg("encsel", 0)
	var out []string
	for i, f := range c11EncFieldLevel {
		if sel>>uint(i)&1 == 1 {
			out = append(out, f)
		}
	}
	if len(out) == 0 {
		out = append(out, c11EncFieldLevel...)
	}
	// seeded permutation
	rot := r.p.cfg("encrot", 0)
	for k := 0; k < rot; k++ {
		i, j := mod(k*7+rot, len(out)), mod(k*3+1, len(out))
		out[i], out[j] = out[j], out[i]
	}
	return out
}

func (r *e1Run) isEncField(f string) bool {
	switch r.p.cfg("enc", 0) {
	case 1:
		return true
	case 2:
		for _, x := range r.encFieldList() {
			if x == f {
				return true
			}
		}
	}
	return false
}

func (r *e1Run) encArgs(slot int) string {
	switch r.p.cfg("enc", 0) {
	case 1:
		return ", encrypt: true"
	case 2:
		return ", encryptFields: [" + strings.Join(r.encFieldList(), ", ") + "]"
	}
	return ""
}

// keyless: nodes that are never served keys (bit mask in cfg; the creator of a doc always holds its key).
func (r *e1Run) keyless(node int) bool {
	return r.encOn() && (r.p.cfg("keyless", 0)>>uint(node))&1 == 1
}

// secretValue produces a unique value for an encrypted field.
func (r *e1Run) secretValue(f *fieldSpec, when string) (valLit, bool) {
	r.secretN++
	n := r.secretN
	switch f.Name {
	case "name":
		s := fmt.Sprintf("s3cr3t-%d-%d-Zq", mod(int(r.p.Seed), 100000), n)
		r.addSecret([]byte(s), f.Name, when, false)
		return valLit{Lit: fmt.Sprintf("%q", s), Want: fmt.Sprintf("%q", s)}, true
	case "tags":
		s := fmt.Sprintf("t4g-%d-%d-Xw", mod(int(r.p.Seed), 100000), n)
		r.addSecret([]byte(s), f.Name, when, false)
		return valLit{Lit: fmt.Sprintf("[%q]", s), Want: fmt.Sprintf("[%q]", s)}, true
	case "ratio", "score":
		// distinctive, exactly representable doubles (sums stay exact)
		v := float64(100000+n*37) + 1.0/1024.0*float64(1+n%7)
		var b [9]byte
		b[0] = 0xfb
		binary.BigEndian.PutUint64(b[1:], math.Float64bits(v))
		r.addSecret(b[:], f.Name, when, false)
		txt := canon(v)
		r.addSecret([]byte(txt), f.Name, when, true)
		return valLit{Lit: txt, Want: txt}, true
	}
	return valLit{}, false
}

func (r *e1Run) addSecret(p []byte, field, when string, text bool) {
	r.secretPats = append(r.secretPats, secretPat{pat: append([]byte(nil), p...), field: field, when: when, text: text})
}

// scanSecret is called for every write on every node.
func (r *e1Run) scanSecret(node int, key, val []byte) {
	if !r.props["C11"] || !r.encOn() {
		return
	}
	inBlocks := bytes.HasPrefix(key, []byte("/db/blocks/"))
	inEnc := bytes.HasPrefix(key, []byte("/db/enc/"))
	if inBlocks || r.keyless(node) {
		for _, s := range r.secretPats {
			if s.text {
				continue
			}
			if bytes.Contains(val, s.pat) {
				where := "shared-blockstore"
				if !inBlocks {
					where = "keyless-node/" + keyClass(string(key))
				}
				r.res.violate("C11", "plaintext-stored", "plaintext-stored/"+where+"/"+s.when+"/"+s.field, r.step,
					"node %d wrote the plaintext of encrypted field %s (written at %s) under %s", node, s.field, s.when, keyClass(string(key)))
				return
			}
		}
	}
	if !inEnc {
		for _, k := range r.encKeys {
			if bytes.Contains(val, k) {
				r.res.violate("C11", "key-outside-keystore", keyClass(string(key)), r.step, "node %d wrote key material under %s", node, keyClass(string(key)))
				return
			}
		}
	}
	r.res.Stats["writes_scanned"]++
}

func (r *e1Run) scanPayload(node int, what string, payload []byte) {
	if !r.props["C11"] || !r.encOn() {
		return
	}
	for _, s := range r.secretPats {
		if s.text {
			continue
		}
		if bytes.Contains(payload, s.pat) {
			r.res.violate("C11", "plaintext-in-notification", what+"/"+s.when+"/"+s.field, r.step,
				"node %d: %s contains the plaintext of encrypted field %s (written at %s)", node, what, s.field, s.when)
			return
		}
	}
	for _, k := range r.encKeys {
		if bytes.Contains(payload, k) {
			r.res.violate("C11", "key-outside-keystore", what, r.step, "node %d: %s contains key material", node, what)
			return
		}
	}
	r.res.Stats["payloads_scanned"]++
}

// noteKeys collects the key material of a node's key store.
func (r *e1Run) noteKeys(node int) {
	if !r.encOn() {
		return
	}
	kvs, err := scanPrefix(r.nodes[node].ctx, r.nodes[node].Store.base, "/db/enc/")
	if err != nil {
		return
	}
	for _, kv := range kvs {
		eb, err := coreblock.GetEncryptionBlockFromBytes(kv.v)
		if err != nil || len(eb.Key) < 16 {
			continue
		}
		dup := false
		for _, k := range r.encKeys {
			if bytes.Equal(k, eb.Key) {
				dup = true
			}
		}
		if !dup {
			r.encKeys = append(r.encKeys, append([]byte(nil), eb.Key...))
			r.res.Stats["keys_tracked"]++
		}
	}
}

// installKMS makes the harness play the key management service for every node.
func (r *e1Run) installKMS() {
	if !r.encOn() {
		return
	}
	for i, nd := range r.nodes {
		i, nd := i, nd
		nd.ServeKeys = func(links [][]byte) []encryption.Item {
			if r.keyless(i) {
				r.res.Stats["key_requests_refused"]++
				return nil
			}
			var items []encryption.Item
			for _, l := range links {
				_, c, err := cid.CidFromBytes(l)
				if err != nil {
					continue
				}
				for j, other := range r.nodes {
					if j == i {
						continue
					}
					b, err := datastore.EncstoreFrom(other.DB.Rootstore()).Get(other.ctx, c)
					if err != nil {
						continue
					}
					// like the real service: store the key block locally, then hand it to the merge
					blk, _ := blocks.NewBlockWithCid(b.RawData(), c)
					_ = datastore.EncstoreFrom(nd.DB.Rootstore()).Put(nd.ctx, blk)
					items = append(items, encryption.Item{Link: l, Block: b.RawData()})
					r.res.Stats["keys_served"]++
					break
				}
			}
			return items
		}
	}
}

// holdsKeys: the node can read the encrypted fields of the doc (creator or served receiver).
func (r *e1Run) holdsKeys(node, slot int) bool {
	if !r.encOn() {
		return true
	}
	return !r.keyless(node) || r.creators[slot] == node+1
}

// responses of a keyless node must not contain the secrets either
func (r *e1Run) scanResponse(node int, resp string) {
	if !r.props["C11"] || !r.encOn() || !r.keyless(node) {
		return
	}
	for _, s := range r.secretPats {
		p := s.pat
		if !s.text && (s.field == "ratio" || s.field == "score") {
			continue
		}
		if bytes.Contains([]byte(resp), p) {
			r.res.violate("C11", "plaintext-readable-without-key", s.when+"/"+s.field, r.step,
				"keyless node %d returned the plaintext of encrypted field %s", node, s.field)
			return
		}
	}
}
