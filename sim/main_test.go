package verifsim

import (
	"encoding/json"
	"flag"
	"fmt"
	"os"
	"path"
	"runtime"
	"runtime/debug"
	"strings"
	"testing"
	"testing/synctest"
	"time"

	"github.com/sourcenetwork/corelog"
)

var (
	fProp   = flag.String("sim.prop", "", "property id")
	fTier   = flag.String("sim.tier", "quick", "quick|thorough")
	fSeed0  = flag.Int64("sim.seed0", 1, "first seed")
	fCount  = flag.Int("sim.count", 10, "number of seeds")
	fStride = flag.Int64("sim.stride", 1, "seed stride")
	fOut    = flag.String("sim.out", "", "result file (JSON)")
	fPlan   = flag.String("sim.plan", "", "replay: plan file")
	fBudget = flag.Duration("sim.budget", 0, "wall-clock budget for this worker")
	fKnown  = flag.String("sim.known", "/verif/known_findings.txt", "known findings file")
	fDump   = flag.Bool("sim.dumplog", false, "print event log")
	fMaxMem = flag.Int("sim.maxmem", 3072, "MiB of memory obtained from the system after which the worker hands the rest of its range to a fresh process")
	fMode   = flag.String("sim.mode", "search", "search|replay|logs")
	fHang   = flag.Duration("sim.hang", 240*time.Second, "real-time watchdog per run")
)

var curT *testing.T

func TestMain(m *testing.M) {
	lvl := os.Getenv("VERIF_LOG")
	if lvl == "" {
		lvl = "error"
	}
	corelog.SetConfig(corelog.Config{Level: lvl, Output: "stderr", Format: "text", DisableColor: true})
	os.Exit(m.Run())
}

// runInBubble executes f inside a synctest bubble; the end-of-bubble deadlock
// panic (goroutines of the system still blocked) is recovered and recorded.
func runInBubble(res *Result, f func()) {
	defer func() {
		if r := recover(); r != nil {
			s := fmt.Sprint(r)
			if strings.Contains(s, "deadlock: main bubble goroutine has exited") {
				res.Stats["bubble_leftover_goroutines"]++
				return
			}
			res.HarnessErr = "panic: " + s + "\n" + string(debug.Stack())
		}
	}()
	synctest.Test(curT, func(t *testing.T) {
		defer func() {
			if r := recover(); r != nil {
				res.HarnessErr = "panic in run: " + fmt.Sprint(r) + "\n" + string(debug.Stack())
			}
		}()
		f()
	})
}

func engineFor(prop string) Engine {
	switch prop {
	case "C01", "C02", "C03", "C04", "C11", "C19", "ALL":
		return e1Engine{}
	case "C05", "C20", "C14", "C18":
		return e3Engine{}
	case "C15", "C12":
		return e2Engine{}
	case "C06":
		return e4aEngine{}
	case "C07", "C09", "C10":
		return e5Engine{}
	case "C16":
		return e4bEngine{}
	}
	return nil
}

type workerOut struct {
	Prop        string            `json:"prop"`
	Tier        string            `json:"tier"`
	Seed0       int64             `json:"seed0"`
	Evaluations int               `json:"evaluations"`
	Shapes      []string          `json:"shapes"`
	Stats       map[string]int    `json:"stats"`
	SimTimeS    float64           `json:"sim_time_s"`
	WallS       float64           `json:"wall_s"`
	Samples     []*Plan           `json:"samples"`
	Violation   *Violation        `json:"violation,omitempty"`
	ViolPlan    *Plan             `json:"viol_plan,omitempty"`
	MinPlan     *Plan             `json:"min_plan,omitempty"`
	Known       map[string]int    `json:"known"`
	HarnessErr  string            `json:"harness_err,omitempty"`
	LogHashes   map[string]string `json:"log_hashes,omitempty"`
	// set when the worker stopped before the end of its range because of its memory use
	NextSeed int64 `json:"next_seed,omitempty"`
	RunsLeft int   `json:"runs_left,omitempty"`
}

func TestSim(t *testing.T) {
	curT = t
	if *fProp == "" && *fPlan == "" {
		t.Skip("no -sim.prop")
	}
	start := time.Now()
	out := &workerOut{Prop: *fProp, Tier: *fTier, Seed0: *fSeed0, Stats: map[string]int{}, Known: map[string]int{}, LogHashes: map[string]string{}}
	defer func() {
		out.WallS = time.Since(start).Seconds()
		if *fOut != "" {
			b, _ := json.MarshalIndent(out, "", " ")
			_ = os.WriteFile(*fOut, b, 0o644)
		}
	}()
	if *fPlan != "" {
		replayFile(t, out)
		return
	}
	eng := engineFor(*fProp)
	if eng == nil {
		t.Fatalf("no engine for %s", *fProp)
	}
	known := loadKnown(*fKnown)
	shapes := map[string]bool{}
	for i := 0; i < *fCount; i++ {
		if *fBudget > 0 && time.Since(start) > *fBudget {
			break
		}
		if i > 0 && i%8 == 0 {
			// What the runs of a long batch leave behind (stores of nodes that were crashed, goroutines of
			// abandoned bubbles) adds up: the process hands the rest of its range to a fresh one.
			var ms runtime.MemStats
			runtime.ReadMemStats(&ms)
			if ms.Sys > uint64(*fMaxMem)<<20 {
				out.NextSeed = *fSeed0 + int64(i)**fStride
				out.RunsLeft = *fCount - i
				break
			}
		}
		seed := *fSeed0 + int64(i)**fStride
		plan := eng.Gen(*fProp, seed, *fTier)
		fmt.Fprintf(os.Stderr, "VERIF-SEED %d BEGIN\n", seed)
		res := runWatched(eng, plan, out)
		fmt.Fprintf(os.Stderr, "VERIF-SEED %d END\n", seed)
		if res == nil {
			return
		}
		out.Evaluations++
		for k, v := range res.Stats {
			out.Stats[k] += v
		}
		out.SimTimeS += res.SimTimeS
		if *fMode == "logs" {
			out.LogHashes[fmt.Sprint(seed)] = res.LogHash
		}
		if *fDump {
			for _, l := range res.Log {
				fmt.Println(l)
			}
		}
		if res.HarnessErr != "" {
			out.HarnessErr = fmt.Sprintf("seed %d: %s", seed, res.HarnessErr)
			fmt.Println("HARNESS-ERROR", out.HarnessErr)
			return
		}
		if res.Nontrivial {
			if len(res.ShapeSet) > 0 {
				for _, x := range res.ShapeSet {
					shapes[x] = true
				}
			} else {
				shapes[res.Shape] = true
			}
		}
		if len(out.Samples) < 2 {
			out.Samples = append(out.Samples, plan)
		}
		if v := res.first(*fProp); v != nil {
			if pat := knownMatch(known, v.Sig()); pat != "" {
				out.Known[pat]++
				fmt.Printf("KNOWN-HIT property=%s seed=%d pattern=%s class=%s detail=%s\n", v.Prop, seed, pat, v.Class, v.Detail)
				continue
			}
			out.Violation = v
			out.ViolPlan = plan
			out.MinPlan = minimise(eng, plan, v)
			fmt.Printf("FOUND property=%s seed=%d class=%s detail=%s\n", v.Prop, seed, v.Class, v.Detail)
			break
		}
	}
	for s := range shapes {
		out.Shapes = append(out.Shapes, s)
	}
}

func replayFile(t *testing.T, out *workerOut) {
	b, err := os.ReadFile(*fPlan)
	if err != nil {
		t.Fatal(err)
	}
	var rf replayDoc
	if err := json.Unmarshal(b, &rf); err != nil {
		t.Fatal(err)
	}
	plan := rf.Plan
	if plan == nil {
		// a bare plan (as printed by TestGen)
		plan = &Plan{}
		if err := json.Unmarshal(b, plan); err != nil || plan.Prop == "" {
			t.Fatalf("%s holds neither a replay document nor a plan", *fPlan)
		}
	}
	eng := engineFor(plan.Prop)
	fmt.Fprintf(os.Stderr, "VERIF-SEED %d BEGIN\n", plan.Seed)
	res := runWatched(eng, plan, out) // a hang ends the process with the hang violation in the worker output
	fmt.Fprintf(os.Stderr, "VERIF-SEED %d END\n", plan.Seed)
	out.Evaluations = 1
	out.LogHashes["replay"] = res.LogHash
	for _, l := range res.Log {
		fmt.Println(l)
	}
	if res.HarnessErr != "" {
		out.HarnessErr = res.HarnessErr
		fmt.Println("HARNESS-ERROR", res.HarnessErr)
		return
	}
	for pass := 0; pass < 2; pass++ {
		for _, v := range res.Viols {
			// same class; failing that, the same oracle clause (the class suffix can depend on the order in
			// which DefraDB walks a Go map, e.g. which of several fields of one write is reported first)
			if v.Prop == plan.Prop && (rf.Violation == nil || v.Class == rf.Violation.Class || (pass == 1 && v.Clause == rf.Violation.Clause)) {
				out.Violation = v
				fmt.Printf("REPRODUCED property=%s class=%s detail=%s\n", v.Prop, v.Class, v.Detail)
				return
			}
		}
	}
	fmt.Println("NOT-REPRODUCED")
}

type replayDoc struct {
	Plan      *Plan      `json:"plan"`
	Violation *Violation `json:"violation"`
	Original  *Plan      `json:"original_plan,omitempty"`
	LogHash   string     `json:"log_hash,omitempty"`
	RepoRev   string     `json:"repo_rev,omitempty"`
}

func loadKnown(path string) map[string]bool {
	m := map[string]bool{}
	b, err := os.ReadFile(path)
	if err != nil {
		return m
	}
	for _, l := range strings.Split(string(b), "\n") {
		l = strings.TrimSpace(l)
		if strings.HasPrefix(l, "known:") {
			// known: property=C03 class=<class> <free text>
			var prop, class string
			for _, f := range strings.Fields(l) {
				if strings.HasPrefix(f, "property=") {
					prop = strings.TrimPrefix(f, "property=")
				}
				if strings.HasPrefix(f, "class=") {
					class = strings.TrimPrefix(f, "class=")
				}
			}
			if prop != "" && class != "" {
				m[prop+"/"+class] = true
			}
		}
	}
	return m
}

// runWatched runs one plan under a real-time watchdog. A run that does not
// return is reported as a hang violation of the property under check with the
// goroutine dump of the stuck DefraDB frames (the process then exits: a bubble
// cannot be aborted).
func runWatched(eng Engine, plan *Plan, out *workerOut) *Result {
	done := make(chan *Result, 1)
	go func() { done <- eng.Run(plan) }()
	select {
	case r := <-done:
		return r
	case <-time.After(*fHang):
		buf := make([]byte, 1<<22)
		n := runtime.Stack(buf, true)
		site := hangSite(string(buf[:n]))
		if d := os.Getenv("VERIF_HANGDUMP"); d != "" {
			_ = os.WriteFile(fmt.Sprintf("%s.%d", d, plan.Seed), buf[:n], 0o644)
		}
		if site == "unknown" {
			// nothing of the system is stuck on a lock: the run is merely slow (loaded machine): not a verdict
			out.HarnessErr = fmt.Sprintf("seed %d: watchdog: run did not finish within %v, no goroutine of the system blocked on a lock", plan.Seed, *fHang)
			fmt.Println("HARNESS-ERROR", out.HarnessErr)
			if *fOut != "" {
				b, _ := json.MarshalIndent(out, "", " ")
				_ = os.WriteFile(*fOut, b, 0o644)
			}
			os.Exit(0)
		}
		out.Violation = &Violation{Prop: plan.Prop, Clause: "hang", Class: "hang/" + site, Step: -1,
			Detail: fmt.Sprintf("run did not finish within %v of real time; a goroutine of the system is blocked on a lock at %s", *fHang, site)}
		out.ViolPlan = plan
		out.MinPlan = plan
		fmt.Printf("FOUND property=%s seed=%d class=%s\n", plan.Prop, plan.Seed, out.Violation.Class)
		if *fOut != "" {
			b, _ := json.MarshalIndent(out, "", " ")
			_ = os.WriteFile(*fOut, b, 0o644)
		}
		os.Exit(0)
	}
	return nil
}

// hangSite finds the innermost DefraDB frame of a goroutine of a bubble that is
// blocked on a mutex (the state synctest cannot treat as durably blocked).
func hangSite(dump string) string {
	for _, g := range strings.Split(dump, "\n\n") {
		head, _, _ := strings.Cut(g, "\n")
		if !strings.Contains(head, "synctest bubble") || strings.Contains(head, "durable") {
			continue
		}
		if !strings.Contains(head, "Mutex") && !strings.Contains(head, "semacquire") {
			continue
		}
		for _, l := range strings.Split(g, "\n") {
			if strings.Contains(l, "sourcenetwork/defradb/") && !strings.Contains(l, "verifsim") && !strings.HasPrefix(l, "\t") {
				i := strings.LastIndex(l, "/")
				l = l[i+1:]
				if j := strings.Index(l, "("); j > 0 {
					l = l[:j]
				}
				return l
			}
		}
	}
	return "unknown"
}

func TestGen(t *testing.T) {
	if *fProp == "" {
		t.Skip()
	}
	b, _ := json.Marshal(engineFor(*fProp).Gen(*fProp, *fSeed0, *fTier))
	fmt.Println(string(b))
}

// knownMatch returns the known-finding pattern (glob on the class) that covers a violation signature.
func knownMatch(known map[string]bool, sig string) string {
	if known[sig] {
		return sig
	}
	for pat := range known {
		if strings.Contains(pat, "*") {
			if ok, _ := path.Match(strings.ReplaceAll(pat, "/", "\x01"), strings.ReplaceAll(sig, "/", "\x01")); ok {
				return pat
			}
		}
	}
	return ""
}
