package verifsim

import (
	"fmt"
	"math"
	"sort"
	"strings"
)

// C09, second part: seeded request shapes that reach through a relation — filter on the other side's
// field with every comparison operator, sub-selections with order / filter / limit, aggregates over
// the related documents, order through a one-to-one relation — each compared with the answer computed
// from the links (the model) and therefore with the answer from the other side.

func cmpOp(op string, v, x float64) bool {
	switch op {
	case "_gt":
		return v > x
	case "_ge":
		return v >= x
	case "_lt":
		return v < x
	case "_le":
		return v <= x
	case "_eq":
		return v == x
	default:
		return v != x
	}
}

func fnum(v any) (float64, bool) {
	switch t := v.(type) {
	case float64:
		return t, true
	case int64:
		return float64(t), true
	case int:
		return float64(t), true
	case int32:
		return float64(t), true
	}
	return 0, false
}

func (r *c09Run) checkShapes(i int, cls string) {
	rr := newRng(r.p.Seed, uint64(7000+i))
	ops := []string{"_gt", "_ge", "_lt", "_le", "_eq"}
	booksOf := map[string][]string{}
	for b, bk := range r.books {
		if _, live := r.users[bk.author]; live {
			booksOf[bk.author] = append(booksOf[bk.author], b)
		}
	}
	for u := range booksOf {
		sort.Strings(booksOf[u])
	}
	// --- parents selected by a child field, with a modifier on the listed children
	for k := 0; k < 3; k++ {
		op := ops[rr.IntN(len(ops))]
		x := float64(rr.IntN(9)) + 0.5
		y := float64(rr.IntN(9)) + 0.5
		sub, subName := "", "plain"
		limit := 0
		switch rr.IntN(4) {
		case 1:
			sub, subName = "(order: {rating: ASC})", "order-asc"
		case 2:
			sub, subName = "(order: {rating: DESC})", "order-desc"
		case 3:
			sub, subName = fmt.Sprintf("(filter: {rating: {_gt: %v}})", y), "filter"
		case 4:
			limit = 1 + rr.IntN(2)
			sub, subName = fmt.Sprintf("(limit: %d)", limit), "limit"
		case 5:
			limit = 1 + rr.IntN(2)
			sub, subName = fmt.Sprintf("(order: {rating: DESC}, limit: %d)", limit), "order-limit"
		}
		q := fmt.Sprintf(`query { User(filter: {books: {rating: {%s: %v}}}) { _docID books%s { _docID rating } } }`, op, x, sub)
		data, ok := r.q(i, q)
		if !ok {
			return
		}
		shape := "parent-by-child-field:" + op + "/children:" + subName
		want := map[string]bool{}
		for u, bs := range booksOf {
			for _, b := range bs {
				// a filter on the listed children also narrows what the parent's filter sees (with and without index)
				if cmpOp(op, r.books[b].rating, x) && (subName != "filter" || r.books[b].rating > y) {
					want[u] = true
				}
			}
		}
		got := map[string]bool{}
		for _, row := range rows(data, "User") {
			u := fmt.Sprint(row["_docID"])
			if got[u] {
				r.res.violate("C09", "relation-filter-differs", shape+"/"+cls, i, "%s lists user %s twice", q, u)
				return
			}
			got[u] = true
			var wantB []string
			for _, b := range booksOf[u] {
				if subName != "filter" || r.books[b].rating > y {
					wantB = append(wantB, b)
				}
			}
			kids, _ := row["books"].([]map[string]any)
			if kids == nil {
				if l, ok := row["books"].([]any); ok {
					for _, e := range l {
						if m, ok := e.(map[string]any); ok {
							kids = append(kids, m)
						}
					}
				}
			}
			var gotB []string
			last := math.NaN()
			for _, kd := range kids {
				gotB = append(gotB, fmt.Sprint(kd["_docID"]))
				v, _ := fnum(kd["rating"])
				if strings.HasPrefix(subName, "order") && !math.IsNaN(last) {
					if (strings.Contains(sub, "ASC") && v < last) || (strings.Contains(sub, "DESC") && v > last) {
						r.res.violate("C09", "order-through-relation", shape+"/"+cls, i, "%s: books of %s are not ordered", q, u)
						return
					}
				}
				last = v
			}
			sort.Strings(gotB)
			if limit > 0 {
				wantLen := min(limit, len(wantB))
				bad := len(gotB) != wantLen
				for _, b := range gotB {
					if !containsStr(wantB, b) {
						bad = true
					}
				}
				if subName == "order-limit" && !bad && len(gotB) > 0 {
					// the listed ones must be the highest rated
					var rs []float64
					for _, b := range wantB {
						rs = append(rs, r.books[b].rating)
					}
					sort.Sort(sort.Reverse(sort.Float64Slice(rs)))
					for _, b := range gotB {
						if r.books[b].rating < rs[wantLen-1] {
							bad = true
						}
					}
				}
				if bad {
					r.res.violate("C09", "parent-side-differs-from-links", shape+"/"+cls, i, "%s: user %s lists %v, its books are %v", q, u, gotB, wantB)
					return
				}
				continue
			}
			if canon(nonNil(gotB)) != canon(nonNil(wantB)) {
				r.res.violate("C09", "parent-side-differs-from-links", shape+"/"+cls, i, "%s: user %s lists %v, the links say %v", q, u, gotB, wantB)
				return
			}
		}
		if canon(sortedKeys(got)) != canon(sortedKeys(want)) {
			r.res.violate("C09", "relation-filter-differs", shape+"/"+cls, i, "%s = %v, from the books' side %v", q, sortedKeys(got), sortedKeys(want))
			return
		}
		r.shape["q:"+shape] = true
	}
	// --- two relations of the same parent in one request, selected through one of them
	{
		artsOf := map[string][]string{}
		for a, ar := range r.articles {
			if _, live := r.users[ar.writer]; live {
				artsOf[ar.writer] = append(artsOf[ar.writer], a)
			}
		}
		op := ops[rr.IntN(len(ops))]
		var q string
		want := map[string]bool{}
		if rr.IntN(2) == 0 {
			x := float64(rr.IntN(9)) + 0.5
			q = fmt.Sprintf(`query { User(filter: {books: {rating: {%s: %v}}}) { _docID books { _docID } articles { _docID } _count(articles: {}) } }`, op, x)
			for u, bs := range booksOf {
				for _, b := range bs {
					if cmpOp(op, r.books[b].rating, x) {
						want[u] = true
					}
				}
			}
		} else {
			x := rr.IntN(9)
			q = fmt.Sprintf(`query { User(filter: {articles: {score: {%s: %d}}}) { _docID books { _docID } articles { _docID } _count(articles: {}) } }`, op, x)
			for u, as := range artsOf {
				for _, a := range as {
					if cmpOp(op, float64(r.articles[a].score), float64(x)) {
						want[u] = true
					}
				}
			}
		}
		data, ok := r.q(i, q)
		if !ok {
			return
		}
		got := map[string]bool{}
		for _, row := range rows(data, "User") {
			u := fmt.Sprint(row["_docID"])
			got[u] = true
			gb, ga := idsOf(row["books"]), idsOf(row["articles"])
			wa := append([]string{}, artsOf[u]...)
			sort.Strings(wa)
			cnt, _ := fnum(row["_count"])
			if canon(gb) != canon(nonNil(booksOf[u])) || canon(ga) != canon(nonNil(wa)) || int(cnt) != len(wa) {
				r.res.violate("C09", "parent-side-differs-from-links", "two-relations/"+cls, i, "%s: user %s books=%v articles=%v _count(articles)=%v, the links say books=%v articles=%v", q, u, gb, ga, row["_count"], booksOf[u], wa)
				return
			}
		}
		if canon(sortedKeys(got)) != canon(sortedKeys(want)) {
			r.res.violate("C09", "relation-filter-differs", "two-relations/"+cls, i, "%s = %v, from the other side %v", q, sortedKeys(got), sortedKeys(want))
			return
		}
		r.shape["q:two-relations"] = true
	}
	// --- aggregates over the related documents, with and without a filter through the relation
	{
		x := float64(rr.IntN(9)) + 0.5
		y := float64(rr.IntN(9)) + 0.5
		flt := ""
		if rr.IntN(2) == 0 {
			flt = fmt.Sprintf("(filter: {books: {rating: {_ge: %v}}})", x)
		}
		q := fmt.Sprintf(`query { User%s { _docID _count(books: {filter: {rating: {_gt: %v}}}) _sum(books: {field: rating}) _min(books: {field: rating}) _max(books: {field: rating}) _avg(books: {field: rating}) } }`, flt, y)
		data, ok := r.q(i, q)
		if !ok {
			return
		}
		seen := map[string]bool{}
		for _, row := range rows(data, "User") {
			u := fmt.Sprint(row["_docID"])
			seen[u] = true
			cnt, sum, rated := 0, 0.0, 0
			lo, hi := math.Inf(1), math.Inf(-1)
			for _, b := range booksOf[u] {
				v := r.books[b].rating
				if math.IsNaN(v) {
					continue
				}
				if v > y {
					cnt++
				}
				sum += v
				rated++
				lo, hi = math.Min(lo, v), math.Max(hi, v)
			}
			gc, _ := fnum(row["_count"])
			gs, _ := fnum(row["_sum"])
			if int(gc) != cnt || math.Abs(gs-sum) > 1e-9 {
				r.res.violate("C09", "aggregate-disagrees", "count-sum/"+cls, i, "%s: user %s _count=%v _sum=%v, from its books count=%d sum=%v", q, u, row["_count"], row["_sum"], cnt, sum)
				return
			}
			if rated > 0 {
				gmin, okMin := fnum(row["_min"])
				gmax, okMax := fnum(row["_max"])
				gavg, okAvg := fnum(row["_avg"])
				if !okMin || !okMax || gmin != lo || gmax != hi || !okAvg || math.Abs(gavg-sum/float64(rated)) > 1e-9 {
					r.res.violate("C09", "aggregate-disagrees", "min-max-avg/"+cls, i, "%s: user %s _min=%v _max=%v _avg=%v, the ratings of its books give min=%v max=%v avg=%v (of %d rated books, %d listed)",
						q, u, row["_min"], row["_max"], row["_avg"], lo, hi, sum/float64(rated), rated, len(booksOf[u]))
					return
				}
			}
		}
		for u := range r.users {
			has := flt == ""
			for _, b := range booksOf[u] {
				if r.books[b].rating >= x {
					has = true
				}
			}
			if has != seen[u] {
				r.res.logf("model users=%v books=%v", r.users, r.books)
				r.res.violate("C09", "relation-filter-differs", "aggregate-parent/"+cls, i, "%s: user %s listed=%v, expected %v", q, u, seen[u], has)
				return
			}
		}
		r.shape["q:aggregate"+map[bool]string{true: "", false: "+filter"}[flt == ""]] = true
	}
	// --- children selected and ordered by a parent field
	{
		op := ops[rr.IntN(len(ops))]
		age := 20 + rr.IntN(9)
		dir := []string{"ASC", "DESC"}[rr.IntN(2)]
		q := fmt.Sprintf(`query { Book(filter: {author: {age: {%s: %d}}}, order: {author: {age: %s}}) { _docID author { _docID age } } }`, op, age, dir)
		data, ok := r.q(i, q)
		if !ok {
			return
		}
		var want []string
		for b, bk := range r.books {
			if a, live := r.users[bk.author]; live && cmpOp(op, float64(a), float64(age)) {
				want = append(want, b)
			}
		}
		sort.Strings(want)
		if got := idsOf(data["Book"]); canon(got) != canon(nonNil(want)) {
			r.res.violate("C09", "relation-filter-differs", "child-by-parent-field:"+op+"/"+cls, i, "%s = %v, from the users' side %v", q, got, want)
			return
		}
		last := -1
		for _, row := range rows(data, "Book") {
			a := r.users[r.books[fmt.Sprint(row["_docID"])].author]
			if last >= 0 && ((dir == "ASC" && a < last) || (dir == "DESC" && a > last)) {
				r.res.violate("C09", "order-through-relation", "child-by-parent-field/"+cls, i, "%s is not ordered by the author's age", q)
				return
			}
			last = a
		}
		r.shape["q:child-by-parent-field:"+op] = true
	}
	// --- one-to-one: filter and order through the relation from either side
	data, ok := r.q(i, `query { Person { _docID name passport { _docID number } } }`)
	if !ok {
		return
	}
	type pers struct{ name, pass, number string }
	people := map[string]pers{}
	var numbers, names []string
	for _, row := range rows(data, "Person") {
		p := pers{name: fmt.Sprint(row["name"])}
		if m, ok := row["passport"].(map[string]any); ok && m != nil {
			p.pass, p.number = fmt.Sprint(m["_docID"]), fmt.Sprint(m["number"])
			numbers = append(numbers, p.number)
		}
		people[fmt.Sprint(row["_docID"])] = p
		names = append(names, p.name)
	}
	sort.Strings(numbers)
	sort.Strings(names)
	if len(numbers) > 0 {
		num := numbers[rr.IntN(len(numbers))]
		num2 := numbers[rr.IntN(len(numbers))]
		sop := []string{"_eq", "_in"}[rr.IntN(2)]
		q := fmt.Sprintf(`query { Person(filter: {passport: {number: {%s: %s}}}) { _docID } }`, sop, strArg(sop, num, num2))
		d2, ok := r.q(i, q)
		if !ok {
			return
		}
		var want []string
		for id, p := range people {
			if p.pass == "" {
				continue
			}
			if strMatch(sop, p.number, num, num2) {
				want = append(want, id)
			}
		}
		sort.Strings(want)
		if got := idsOf(d2["Person"]); canon(got) != canon(nonNil(want)) {
			r.res.violate("C09", "relation-filter-differs", "one-to-one-primary-by-secondary-field:"+sop+"/"+cls, i, "%s = %v, the listing says %v", q, got, want)
			return
		}
		r.shape["q:one-to-one-primary-by-secondary-field:"+sop] = true
	}
	if len(names) > 0 {
		name := names[rr.IntN(len(names))]
		name2 := names[rr.IntN(len(names))]
		sop := []string{"_eq", "_in"}[rr.IntN(2)]
		q := fmt.Sprintf(`query { Passport(filter: {owner: {name: {%s: %s}}}) { _docID } }`, sop, strArg(sop, name, name2))
		d2, ok := r.q(i, q)
		if !ok {
			return
		}
		var want []string
		for _, p := range people {
			if p.pass == "" {
				continue
			}
			if strMatch(sop, p.name, name, name2) {
				want = append(want, p.pass)
			}
		}
		sort.Strings(want)
		if got := idsOf(d2["Passport"]); canon(got) != canon(nonNil(want)) {
			r.res.violate("C09", "relation-filter-differs", "one-to-one-secondary-by-primary-field:"+sop+"/"+cls, i, "%s = %v, the person side says %v", q, got, want)
			return
		}
		r.shape["q:one-to-one-secondary-by-primary-field:"+sop] = true
	}
	{
		dir := []string{"ASC", "DESC"}[rr.IntN(2)]
		q := fmt.Sprintf(`query { Person(order: {passport: {number: %s}}) { _docID passport { number } } }`, dir)
		d2, ok := r.q(i, q)
		if !ok {
			return
		}
		if got := idsOf(d2["Person"]); canon(got) != canon(nonNil(sortedKeys(people))) {
			r.res.violate("C09", "order-through-relation", "one-to-one-set/"+cls, i, "%s lists %v, the plain listing %v", q, got, sortedKeys(people))
			return
		}
		last := ""
		for _, row := range rows(d2, "Person") {
			m, _ := row["passport"].(map[string]any)
			if m == nil {
				continue
			}
			n := fmt.Sprint(m["number"])
			if last != "" && ((dir == "ASC" && n < last) || (dir == "DESC" && n > last)) {
				r.res.violate("C09", "order-through-relation", "one-to-one/"+cls, i, "%s is not ordered by the passport number", q)
				return
			}
			last = n
		}
		r.shape["q:one-to-one-order"] = true
	}
	r.checkShapesOwnFields(i, cls, booksOf)
}

// checkShapesOwnFields: a condition through the relation together with a condition on the selected
// collection's own field, and a limit on the listed children (own stream of choices).
func (r *c09Run) checkShapesOwnFields(i int, cls string, booksOf map[string][]string) {
	rx := newRng(r.p.Seed, uint64(9000+i))
	ops := []string{"_gt", "_ge", "_lt", "_le", "_eq"}
	// --- children selected by a parent field and an own field
	{
		op, op2 := ops[rx.IntN(len(ops))], ops[rx.IntN(len(ops))]
		age := 20 + rx.IntN(9)
		x := float64(rx.IntN(9)) + 0.5
		q := fmt.Sprintf(`query { Book(filter: {author: {age: {%s: %d}}, rating: {%s: %v}}) { _docID } }`, op, age, op2, x)
		data, ok := r.q(i, q)
		if !ok {
			return
		}
		var want []string
		for b, bk := range r.books {
			if a, live := r.users[bk.author]; live && cmpOp(op, float64(a), float64(age)) && cmpOp(op2, bk.rating, x) {
				want = append(want, b)
			}
		}
		sort.Strings(want)
		if got := idsOf(data["Book"]); canon(got) != canon(nonNil(want)) {
			r.res.violate("C09", "relation-filter-differs", "child-by-parent-field-and-own-field:"+op+"/"+cls, i, "%s = %v, by the model %v", q, got, want)
			return
		}
		r.shape["q:child-by-parent-field-and-own-field:"+op] = true
	}
	// --- parents selected by a child field and an own field
	{
		op, op2 := ops[rx.IntN(len(ops))], ops[rx.IntN(len(ops))]
		age := 20 + rx.IntN(9)
		x := float64(rx.IntN(9)) + 0.5
		order := ""
		if rx.IntN(2) == 1 {
			order = ", order: {age: ASC}"
		}
		q := fmt.Sprintf(`query { User(filter: {books: {rating: {%s: %v}}, age: {%s: %d}}%s) { _docID } }`, op, x, op2, age, order)
		data, ok := r.q(i, q)
		if !ok {
			return
		}
		var want []string
		for u, bs := range booksOf {
			if !cmpOp(op2, float64(r.users[u]), float64(age)) {
				continue
			}
			for _, b := range bs {
				if cmpOp(op, r.books[b].rating, x) {
					want = append(want, u)
					break
				}
			}
		}
		sort.Strings(want)
		got := idsOf(data["User"])
		for k := 1; k < len(got); k++ {
			if got[k] == got[k-1] {
				r.res.violate("C09", "relation-filter-differs", "parent-by-child-field-and-own-field:duplicates/"+cls, i, "%s lists a user more than once: %v", q, got)
				return
			}
		}
		if canon(got) != canon(nonNil(want)) {
			r.res.violate("C09", "relation-filter-differs", "parent-by-child-field-and-own-field:"+op+"/"+cls, i, "%s = %v, by the model %v", q, got, want)
			return
		}
		r.shape["q:parent-by-child-field-and-own-field:"+op] = true
	}
	// --- parents selected through two of their relations at once
	{
		op, op2 := ops[rx.IntN(len(ops))], ops[rx.IntN(len(ops))]
		x := float64(rx.IntN(9)) + 0.5
		sc := rx.IntN(10)
		q := fmt.Sprintf(`query { User(filter: {books: {rating: {%s: %v}}, articles: {score: {%s: %d}}}) { _docID } }`, op, x, op2, sc)
		data, ok := r.q(i, q)
		if !ok {
			return
		}
		byArticle := map[string]bool{}
		for _, a := range r.articles {
			if _, live := r.users[a.writer]; live && cmpOp(op2, float64(a.score), float64(sc)) {
				byArticle[a.writer] = true
			}
		}
		var want []string
		for u, bs := range booksOf {
			if !byArticle[u] {
				continue
			}
			for _, b := range bs {
				if cmpOp(op, r.books[b].rating, x) {
					want = append(want, u)
					break
				}
			}
		}
		sort.Strings(want)
		if got := idsOf(data["User"]); canon(got) != canon(nonNil(want)) {
			r.res.violate("C09", "relation-filter-differs", "parent-by-two-relations:"+op+"/"+cls, i, "%s = %v, by the model %v", q, got, want)
			return
		}
		r.shape["q:parent-by-two-relations:"+op] = true
	}
	// --- the same relation at the top level of the filter and inside a compound branch
	{
		op := ops[rx.IntN(len(ops))]
		x := float64(rx.IntN(9)) + 0.5
		age := 20 + rx.IntN(9)
		td, ok := r.q(i, `query { Book { _docID title } }`)
		if !ok {
			return
		}
		titleOf := map[string]string{}
		var titles []string
		for _, row := range rows(td, "Book") {
			titleOf[fmt.Sprint(row["_docID"])] = fmt.Sprint(row["title"])
			titles = append(titles, fmt.Sprint(row["title"]))
		}
		sort.Strings(titles)
		if len(titles) > 0 {
			title := titles[rx.IntN(len(titles))]
			q := fmt.Sprintf(`query { User(filter: {books: {rating: {%s: %v}}, _or: [{books: {title: {_eq: %q}}}, {age: {_eq: %d}}]}) { _docID } }`, op, x, title, age)
			data, ok := r.q(i, q)
			if !ok {
				return
			}
			var want []string
			for u, bs := range booksOf {
				byRating, byTitle := false, false
				for _, b := range bs {
					if cmpOp(op, r.books[b].rating, x) {
						byRating = true
					}
					if titleOf[b] == title {
						byTitle = true
					}
				}
				if byRating && (byTitle || r.users[u] == age) {
					want = append(want, u)
				}
			}
			sort.Strings(want)
			if got := idsOf(data["User"]); canon(got) != canon(nonNil(want)) {
				r.res.violate("C09", "relation-filter-differs", "relation-at-top-level-and-in-or:"+op+"/"+cls, i, "%s = %v, by the model %v", q, got, want)
				return
			}
			r.shape["q:relation-at-top-level-and-in-or:"+op] = true
		}
	}
	// --- one-to-one: the relation id seen from the side that does not store it
	{
		var want []string
		for _, pp := range r.persons {
			if pp != "" && r.passports[pp] {
				want = append(want, pp)
			}
		}
		sort.Strings(want)
		for _, q := range []string{`query { Passport(filter: {owner_id: {_ne: null}}) { _docID } }`, `query { Passport(filter: {owner: {_docID: {_ne: null}}}) { _docID } }`} {
			data, ok := r.q(i, q)
			if !ok {
				return
			}
			if got := idsOf(data["Passport"]); canon(got) != canon(nonNil(want)) {
				r.res.violate("C09", "relation-filter-differs", "one-to-one:relation-id-of-secondary-side/"+cls, i, "%s = %v, from the persons' side %v", q, got, want)
				return
			}
		}
		r.shape["q:one-to-one:relation-id-of-secondary-side"] = true
	}
	// --- two hops: the listed children of every parent are selected through their own relation
	{
		op := ops[rx.IntN(len(ops))]
		age := 20 + rx.IntN(9)
		q := fmt.Sprintf(`query { Library { _docID books(filter: {author: {age: {%s: %d}}}) { _docID } } }`, op, age)
		data, ok := r.q(i, q)
		if !ok {
			return
		}
		want := map[string][]string{}
		for l := range r.libs {
			want[l] = nil
		}
		for b, bk := range r.books {
			if !r.libs[bk.library] {
				continue
			}
			if a, live := r.users[bk.author]; live && cmpOp(op, float64(a), float64(age)) {
				want[bk.library] = append(want[bk.library], b)
			}
		}
		for _, row := range rows(data, "Library") {
			l := fmt.Sprint(row["_docID"])
			w := append([]string{}, want[l]...)
			sort.Strings(w)
			if got := idsOf(row["books"]); canon(got) != canon(nonNil(w)) {
				r.res.violate("C09", "relation-filter-differs", "two-hops:children-by-their-relation:"+op+"/"+cls, i, "%s: library %s lists %v, by the model %v", q, l, got, w)
				return
			}
		}
		r.shape["q:two-hops:children-by-their-relation:"+op] = true
	}
	// --- parents selected by a child field, with a limit on the listed children
	{
		op := ops[rx.IntN(len(ops))]
		x := float64(rx.IntN(9)) + 0.5
		limit := 1 + rx.IntN(2)
		q := fmt.Sprintf(`query { User(filter: {books: {rating: {%s: %v}}}) { _docID books(limit: %d) { _docID } } }`, op, x, limit)
		data, ok := r.q(i, q)
		if !ok {
			return
		}
		// the parent's filter sees the children that are listed (as with a filter on the listed children): the
		// first `limit` ones in the order of their ids
		var want []string
		for u, bs := range booksOf {
			for k, b := range bs {
				if k < limit && cmpOp(op, r.books[b].rating, x) {
					want = append(want, u)
					break
				}
			}
		}
		sort.Strings(want)
		if got := idsOf(data["User"]); canon(got) != canon(nonNil(want)) {
			r.res.violate("C09", "relation-filter-differs", "parent-by-child-field/children:limit/"+cls, i, "%s = %v, by the model %v", q, got, want)
			return
		}
		r.shape["q:parent-by-child-field/children:limit"] = true
	}
}


func strArg(op, a, b string) string {
	if op == "_in" || op == "_nin" {
		return fmt.Sprintf("[%q, %q]", a, b)
	}
	return fmt.Sprintf("%q", a)
}

func strMatch(op, v, a, b string) bool {
	switch op {
	case "_eq":
		return v == a
	case "_ne":
		return v != a
	case "_in":
		return v == a || v == b
	default:
		return v != a && v != b
	}
}
