package verifsim

import (
	"encoding/json"
	"time"
	"context"
	"fmt"
	"regexp"
	"sort"
	"strings"
	"testing/synctest"

	"github.com/sourcenetwork/defradb/client"
	"github.com/sourcenetwork/defradb/event"
)

// E5 — twin engine. C07: secondary indexes never change what a query returns.

type e5Engine struct{}

func (e5Engine) Name() string { return "E5" }

const c07SDL = `type User {
  name: String
  age: Int
  score: Float
  active: Boolean
  born: DateTime
  tags: [String]
  nums: [Int]
  meta: JSON
  points: Int @crdt(type: pncounter)
  books: [Book]
}
type Book {
  title: String
  rating: Float
  author: User
}
`

type c07Field struct {
	name string
	kind string // string int float bool time strarr intarr json counter
	json []string
	gql  []string // literals usable in GraphQL inputs and filters (subset)
}

var c07Fields = []c07Field{
	{"name", "string", []string{`"ann"`, `"Ann"`, `"bob"`, `""`, `"a b"`, `"ÿ"`, `"annabel"`, `"zed"`, `null`},
		[]string{`"ann"`, `"Ann"`, `"bob"`, `""`, `"a b"`, `"ÿ"`, `"annabel"`, `"zed"`, `null`}},
	{"age", "int", []string{`0`, `-1`, `1`, `21`, `22`, `2147483647`, `-2147483648`, `9223372036854775807`, `-9223372036854775808`, `4294967296`, `null`},
		[]string{`0`, `-1`, `1`, `21`, `22`, `2147483647`, `-2147483648`, `null`}},
	{"score", "float", []string{`0`, `-0.0`, `0.5`, `-1.25`, `1e300`, `-1e300`, `5e-324`, `2.5`, `100`, `null`},
		[]string{`0.0`, `0.5`, `-1.25`, `2.5`, `100.0`, `null`}},
	{"active", "bool", []string{`true`, `false`, `null`}, []string{`true`, `false`, `null`}},
	{"born", "time", []string{`"2020-01-01T00:00:00Z"`, `"1969-12-31T23:59:59.999999999Z"`, `"2020-01-01T00:00:00.000000001Z"`, `"2038-01-19T03:14:08Z"`, `null`},
		[]string{`"2020-01-01T00:00:00Z"`, `"1969-12-31T23:59:59.999999999Z"`, `"2020-01-01T00:00:00.000000001Z"`, `"2038-01-19T03:14:08Z"`, `null`, `"2020-01-01T01:00:00+01:00"`}},
	{"tags", "strarr", []string{`[]`, `["x"]`, `["x", "y"]`, `["y", "", "x"]`, `null`}, []string{`[]`, `["x"]`, `["x", "y"]`, `["y", "", "x"]`, `null`}},
	{"nums", "intarr", []string{`[]`, `[1]`, `[1, 2, 3]`, `[-1, 0]`, `[3, 3]`, `null`}, []string{`[]`, `[1]`, `[1, 2, 3]`, `[-1, 0]`, `[3, 3]`, `null`}},
	{"meta", "json", []string{`{"a": 1}`, `{"a": 2, "b": "x"}`, `{"a": {"c": true}}`, `[1, 2]`, `"s"`, `7`, `null`, `[1, 1]`, `{"a": [2, 2]}`},
		[]string{`{a: 1}`, `{a: 2, b: "x"}`, `{a: {c: true}}`, `[1, 2]`, `"s"`, `7`, `null`, `[1, 1]`}},
	{"points", "counter", []string{`1`, `5`, `100`}, []string{`1`, `5`, `-2`, `10`}},
}

func c07FieldByName(n string) *c07Field {
	for i := range c07Fields {
		if c07Fields[i].name == n {
			return &c07Fields[i]
		}
	}
	return nil
}

// candidate indexes on User
type c07Index struct {
	name   string
	fields []client.IndexedFieldDescription
	unique bool
}

var c07IndexPool = []c07Index{
	{"ix_name", []client.IndexedFieldDescription{{Name: "name"}}, false},
	{"ix_name_desc", []client.IndexedFieldDescription{{Name: "name", Descending: true}}, false},
	{"ix_age", []client.IndexedFieldDescription{{Name: "age"}}, false},
	{"ix_age_desc", []client.IndexedFieldDescription{{Name: "age", Descending: true}}, false},
	{"ix_score", []client.IndexedFieldDescription{{Name: "score"}}, false},
	{"ix_active", []client.IndexedFieldDescription{{Name: "active"}}, false},
	{"ix_born", []client.IndexedFieldDescription{{Name: "born"}}, false},
	{"ix_tags", []client.IndexedFieldDescription{{Name: "tags"}}, false},
	{"ix_nums", []client.IndexedFieldDescription{{Name: "nums"}}, false},
	{"ix_meta", []client.IndexedFieldDescription{{Name: "meta"}}, false},
	{"ix_points", []client.IndexedFieldDescription{{Name: "points"}}, false},
	{"ix_name_age", []client.IndexedFieldDescription{{Name: "name"}, {Name: "age"}}, false},
	{"ix_age_score", []client.IndexedFieldDescription{{Name: "age", Descending: true}, {Name: "score"}}, false},
	{"ux_age", []client.IndexedFieldDescription{{Name: "age"}}, true},
	{"ux_name_age", []client.IndexedFieldDescription{{Name: "name"}, {Name: "age"}}, true},
	{"ux_name", []client.IndexedFieldDescription{{Name: "name"}}, true},
	{"ix_born_desc", []client.IndexedFieldDescription{{Name: "born", Descending: true}}, false},
	{"ix_age_tags", []client.IndexedFieldDescription{{Name: "age"}, {Name: "tags"}}, false},
	{"ix_active_name", []client.IndexedFieldDescription{{Name: "active"}, {Name: "name", Descending: true}}, false},
	{"ux_nums", []client.IndexedFieldDescription{{Name: "nums"}}, true},
}

func (e5Engine) Gen(prop string, seed int64, tier string) *Plan {
	switch prop {
	case "C09":
		return genC09(seed, tier)
	case "C10":
		return genC10(seed, tier)
	}
	r := newRng(seed, 7)
	p := &Plan{Prop: prop, Engine: "E5", Seed: seed, Cfg: map[string]int{}}
	// index set: bit mask over the pool, 1-4 indexes; each created before data (bit in "early") or mid-history
	nix := 1 + r.IntN(4)
	mask := 0
	for k := 0; k < nix; k++ {
		mask |= 1 << r.IntN(len(c07IndexPool))
	}
	// two thirds of the plans stay away from the features with known findings (JSON index, index on a
	// counter, _all on arrays, _in together with order) so that the rest of the space is explored undisturbed
	p.Cfg["avoid"] = pick(r, []int{1, 1, 0})
	if p.Cfg["avoid"] == 1 {
		mask &^= 1<<9 | 1<<10
		if mask == 0 {
			mask = 1 << r.IntN(9)
		}
	}
	if rx := newRng(seed, 71); chance(rx, 20) {
		// a unique index on an array field (own stream of choices)
		for k, ixd := range c07IndexPool {
			if ixd.name == "ux_nums" {
				mask |= 1 << uint(k)
			}
		}
	}
	p.Cfg["ixmask"] = mask
	p.Cfg["early"] = r.IntN(1 << len(c07IndexPool))
	p.Cfg["bookix"] = r.IntN(4) // bit0: index on Book.author, bit1: index on Book.rating
	n := 6 + r.IntN(30)
	if tier == "quick" {
		n = 6 + r.IntN(18)
	}
	for i := 0; i < n; i++ {
		x := r.IntN(100)
		switch {
		case x < 34:
			p.Steps = append(p.Steps, Step{K: "create", A: r.IntN(1 << 24), B: r.IntN(1 << 24), C: r.IntN(1 << 24)})
		case x < 58:
			p.Steps = append(p.Steps, Step{K: "update", A: r.IntN(64), B: r.IntN(len(c07Fields)), C: r.IntN(64), D: r.IntN(1 << 16)})
		case x < 66:
			p.Steps = append(p.Steps, Step{K: "delete", A: r.IntN(64)})
		case x < 72:
			p.Steps = append(p.Steps, Step{K: "book", A: r.IntN(64), B: r.IntN(9), C: r.IntN(3)})
		case x < 82:
			p.Steps = append(p.Steps, Step{K: "remote", A: r.IntN(3), B: r.IntN(1 << 24), C: r.IntN(64), D: r.IntN(1 << 16)})
		case x < 88:
			p.Steps = append(p.Steps, Step{K: "ixtoggle", A: r.IntN(len(c07IndexPool))})
		case x < 92:
			p.Steps = append(p.Steps, Step{K: "restart"})
		default:
			p.Steps = append(p.Steps, Step{K: "check", A: r.IntN(1 << 24)})
		}
	}
	p.Steps = append(p.Steps, Step{K: "check", A: r.IntN(1 << 24)})
	// updates through the collection API with a document that carries only the changed field (own stream)
	rcu := newRng(seed, 72)
	var steps []Step
	for _, st := range p.Steps {
		steps = append(steps, st)
		if st.K == "update" && chance(rcu, 25) {
			steps = append(steps, Step{K: "colupdate", A: rcu.IntN(64), B: rcu.IntN(3), C: rcu.IntN(64)})
		}
	}
	p.Steps = steps
	return p
}

func (e5Engine) Run(p *Plan) *Result {
	res := newResult()
	defer res.finish()
	runInBubble(res, func() {
		switch p.Prop {
		case "C09":
			runC09(p, res)
		case "C10":
			runC10(p, res)
		default:
			runC07(p, res)
		}
	})
	return res
}

type c07Run struct {
	p          *Plan
	res        *Result
	ctx        context.Context
	ix, pl     *SimNode // indexed node, plain twin
	rm         *SimNode // remote writer
	colID      string
	active     map[string]bool              // index name -> currently exists on the indexed node
	model      map[string]map[string]string // docID -> field -> json literal (live documents, for the unique oracle)
	remoteDocs []string
	shape      map[string]bool
	step       int
	rng64      uint64
	parts      []condPart
}

type condPart struct{ cond, tag string }

// attribute narrows a difference found with a compound request down to a single condition when
// that condition alone (no order, no limit) already makes the two nodes disagree.
func (r *c07Run) attribute(tag string) string {
	if len(r.parts) < 1 {
		return tag
	}
	for _, pt := range r.parts {
		q := fmt.Sprintf("query { User(filter: {%s}) { _docID } }", pt.cond)
		di, ei := r.ix.GQL(q)
		dp, ep := r.pl.GQL(q)
		if len(ep) > 0 {
			continue
		}
		if len(ei) > 0 || multiset(rows(di, "User")) != multiset(rows(dp, "User")) {
			return pt.tag
		}
	}
	return tag
}

var reIndexFetches = regexp.MustCompile(`"indexFetches":([1-9][0-9]*)`)

func runC07(p *Plan, res *Result) {
	ctx, cancel := context.WithCancel(context.Background())
	defer cancel()
	installRand(p.Seed)
	r := &c07Run{p: p, res: res, ctx: ctx, active: map[string]bool{}, model: map[string]map[string]string{}, shape: map[string]bool{}}
	var nodes []*SimNode
	for _, name := range []string{"ix", "pl", "rm"} {
		setRandStep("start|" + name)
		n, err := startNode(ctx, name, NewSimStore(), NodeOpts{})
		if err != nil {
			res.HarnessErr = "start: " + err.Error()
			return
		}
		nodes = append(nodes, n)
		cols, err := n.DB.AddSchema(n.reqCtx(), c07SDL)
		if err != nil {
			res.HarnessErr = "schema: " + err.Error()
			return
		}
		for _, c := range cols {
			if c.Name == "User" {
				r.colID = c.CollectionID
			}
		}
	}
	r.ix, r.pl, r.rm = nodes[0], nodes[1], nodes[2]
	defer func() {
		r.ix.Close()
		r.pl.Close()
		r.rm.Close()
	}()
	// indexes that exist before any data
	for k, ixd := range c07IndexPool {
		if p.cfg("ixmask", 0)>>uint(k)&1 == 1 && p.cfg("early", 0)>>uint(k)&1 == 1 {
			r.createIndex(ixd)
		}
	}
	if p.cfg("bookix", 0)&1 == 1 {
		r.bookIndex("author")
	}
	if p.cfg("bookix", 0)&2 == 2 {
		r.bookIndex("rating")
	}
	for i, s := range p.Steps {
		if len(res.Viols) > 0 || res.HarnessErr != "" {
			break
		}
		r.step = i
		setRandStep(fmt.Sprintf("step|%d", i))
		r.exec(i, s)
	}
	res.ShapeSet = sortedCopy(keysOf(r.shape))
	res.Shape = strings.Join(res.ShapeSet, ";")
	res.Nontrivial = len(r.shape) > 0
}

func (r *c07Run) bookIndex(field string) {
	col, err := r.ix.DB.GetCollectionByName(r.ix.reqCtx(), "Book")
	if err != nil {
		r.res.HarnessErr = err.Error()
		return
	}
	if _, err := col.CreateIndex(r.ix.reqCtx(), client.IndexCreateRequest{Name: "ixb_" + field, Fields: []client.IndexedFieldDescription{{Name: field}}}); err != nil {
		r.res.HarnessErr = "book index: " + err.Error()
	}
}

func (r *c07Run) createIndex(ixd c07Index) {
	col, err := r.ix.DB.GetCollectionByName(r.ix.reqCtx(), "User")
	if err != nil {
		r.res.HarnessErr = err.Error()
		return
	}
	_, err = col.CreateIndex(r.ix.reqCtx(), client.IndexCreateRequest{Name: ixd.name, Fields: append([]client.IndexedFieldDescription{}, ixd.fields...), Unique: ixd.unique})
	if err != nil {
		if ixd.unique && strings.Contains(err.Error(), "unique") {
			// existing data violates it: legitimate, the index is simply not there
			r.res.Stats["unique_index_rejected_on_existing_data"]++
			return
		}
		r.res.violate("C07", "create-index-failed", ixd.name, r.step, "CreateIndex %s: %v", ixd.name, err)
		return
	}
	r.active[ixd.name] = true
	r.res.Stats["indexes_created"]++
}

func (r *c07Run) dropIndex(name string) {
	col, err := r.ix.DB.GetCollectionByName(r.ix.reqCtx(), "User")
	if err != nil {
		r.res.HarnessErr = err.Error()
		return
	}
	if err := col.DropIndex(r.ix.reqCtx(), name); err != nil {
		r.res.violate("C07", "drop-index-failed", name, r.step, "DropIndex %s: %v", name, err)
		return
	}
	delete(r.active, name)
	r.res.Stats["indexes_dropped"]++
}

func (r *c07Run) liveIDs() []string {
	ids := sortedKeys(r.model)
	return ids
}

// uniqueConflict: would writing `vals` to document id (""=new) collide under an active unique index?
// Returns (conflict, undetermined).
func (r *c07Run) uniqueConflict(id string, vals map[string]string) (bool, bool) {
	for _, ixd := range c07IndexPool {
		if !ixd.unique || !r.active[ixd.name] {
			continue
		}
		if fd := c07FieldByName(ixd.fields[0].Name); len(ixd.fields) == 1 && fd != nil && (fd.kind == "intarr" || fd.kind == "strarr") {
			// a unique index on an array: every element is unique among the live documents
			elems := func(v string) ([]string, bool) {
				var xs []any
				if v == "" || v == "null" || json.Unmarshal([]byte(v), &xs) != nil {
					return nil, false
				}
				var out []string
				dup := false
				for _, x := range xs {
					e := canon(x)
					for _, o := range out {
						if o == e {
							dup = true
						}
					}
					out = append(out, e)
				}
				return out, dup
			}
			mine, dup := elems(vals[fd.name])
			if dup {
				return false, true // the same element twice in one document: either outcome is accepted
			}
			for oid, ov := range r.model {
				if oid == id {
					continue
				}
				theirs, _ := elems(ov[fd.name])
				for _, a := range mine {
					for _, b := range theirs {
						if a == b && a != "null" {
							return true, false
						}
					}
				}
			}
			continue
		}
		tuple := func(m map[string]string) (string, bool) {
			var parts []string
			for _, f := range ixd.fields {
				v, ok := m[f.Name]
				if !ok || v == "null" {
					return "", false
				}
				parts = append(parts, normNum(v))
			}
			return strings.Join(parts, "|"), true
		}
		t, full := tuple(vals)
		if !full {
			continue
		}
		for oid, ov := range r.model {
			if oid == id {
				continue
			}
			if ot, ok := tuple(ov); ok && ot == t {
				return true, false
			}
		}
	}
	return false, false
}

// normTime renders a date-time value as its instant in UTC.
func normTime(v any) any {
	switch t := v.(type) {
	case time.Time:
		return t.UTC().Format(time.RFC3339Nano)
	case string:
		if p, err := time.Parse(time.RFC3339Nano, t); err == nil {
			return p.UTC().Format(time.RFC3339Nano)
		}
	}
	return v
}

func normNum(v string) string {
	if v == "-0.0" || v == "0.0" || v == "-0" {
		return "0"
	}
	return v
}

func isUniqueErrStr(s string) bool {
	return strings.Contains(s, "unique index") || strings.Contains(s, "violates unique") || strings.Contains(s, "can not index a doc's field(s) that violates")
}

func (r *c07Run) exec(i int, s Step) {
	switch s.K {
	case "create":
		sel := []int{s.A, s.A >> 6, s.A >> 12, s.B, s.B >> 6, s.B >> 12, s.C, s.C >> 6, s.C >> 12}
		vals := map[string]string{}
		var parts []string
		for k, f := range c07Fields {
			v := f.json[mod(sel[k], len(f.json))]
			if f.name == "name" {
				// keep documents distinct without making the name unique per document
				v = f.json[mod(sel[k], len(f.json)-1)]
			}
			vals[f.name] = v
			if v != "null" {
				parts = append(parts, fmt.Sprintf("%q: %s", f.name, v))
			}
		}
		parts = append(parts, fmt.Sprintf(`"born": %s`, vals["born"]))
		js := "{" + strings.Join(dedupParts(parts), ", ") + "}"
		conflict, undet := r.uniqueConflict("", vals)
		id, err := r.colCreate(r.ix, js)
		if err != nil {
			if strings.Contains(err.Error(), "already exists") {
				return // identical document: not a new document
			}
			if isUniqueErrStr(err.Error()) {
				if !conflict && !undet {
					r.res.violate("C07", "unique-spurious-reject", "create", i, "create %s rejected (%v) although no live document holds the value", js, err)
				}
				r.res.Stats["unique_rejects"]++
				return
			}
			r.res.violate("C07", "write-failed-on-indexed-node", "create", i, "create %s: %v", js, err)
			return
		}
		if conflict {
			r.res.violate("C07", "unique-not-enforced", "create", i, "create %s accepted although a live document already holds the unique value", js)
			return
		}
		if id2, err := r.colCreate(r.pl, js); err != nil || id2 != id {
			r.res.HarnessErr = fmt.Sprintf("twin create diverged: %v %s %s", err, id, id2)
			return
		}
		r.model[id] = vals
		r.res.Stats["creates"]++
	case "update":
		ids := r.liveIDs()
		if len(ids) == 0 {
			return
		}
		id := ids[mod(s.A, len(ids))]
		f := c07Fields[mod(s.B, len(c07Fields))]
		if r.active["ux_nums"] && mod(s.D, 2) == 0 {
			f = *c07FieldByName("nums") // a unique array index: half of the updates rewrite the array
		}
		lit := f.gql[mod(s.C, len(f.gql))]
		nv := copyStrMap(r.model[id])
		nv[f.name] = gqlToJSON(lit)
		conflict, undet := r.uniqueConflict(id, nv)
		q := fmt.Sprintf(`mutation { update_User(docID: %q, input: {%s: %s}) { _docID } }`, id, f.name, lit)
		_, errs := r.ix.GQL(q)
		if len(errs) > 0 {
			e := strings.Join(errs, ";")
			if isUniqueErrStr(e) {
				if !conflict && !undet {
					r.res.violate("C07", "unique-spurious-reject", "update", i, "%s rejected (%s) although no other live document holds the value", q, e)
				}
				r.res.Stats["unique_rejects"]++
				return
			}
			r.res.violate("C07", "write-failed-on-indexed-node", "update/"+f.kind+"/"+writeErrClass(errs), i, "%s: %s", q, e)
			return
		}
		if conflict {
			r.res.violate("C07", "unique-not-enforced", "update", i, "%s accepted although another live document holds the unique value", q)
			return
		}
		if _, errs := r.pl.GQL(q); len(errs) > 0 {
			r.res.HarnessErr = fmt.Sprintf("twin update failed: %v", errs)
			return
		}
		if f.kind != "counter" {
			r.model[id] = nv
		}
		r.res.Stats["updates"]++
	case "colupdate":
		// Collection.Update with a document that holds the docID and the one changed field only
		ids := r.liveIDs()
		if len(ids) == 0 {
			return
		}
		id := ids[mod(s.A, len(ids))]
		f := *c07FieldByName([]string{"score", "active", "born"}[mod(s.B, 3)])
		jv := f.json[mod(s.C, len(f.json))]
		for k, n := range []*SimNode{r.ix, r.pl} {
			err := func() (err error) {
				defer func() {
					if p := recover(); p != nil {
						err = fmt.Errorf("PANIC: %v @ %s", p, panicSite())
					}
				}()
				col, err := n.DB.GetCollectionByName(n.reqCtx(), "User")
				if err != nil {
					return err
				}
				docID, err := client.NewDocIDFromString(id)
				if err != nil {
					return err
				}
				doc, err := client.NewDocWithID(docID, col.Definition())
				if err != nil {
					return err
				}
				if err := doc.SetWithJSON([]byte(fmt.Sprintf(`{%q: %s}`, f.name, jv))); err != nil {
					return err
				}
				return col.Update(n.reqCtx(), doc)
			}()
			if err != nil {
				if k == 0 {
					r.res.violate("C07", "write-failed-on-indexed-node", "colupdate/"+f.kind+"/"+writeErrClass([]string{err.Error()}), i, "Collection.Update of %s with {%s: %s}: %v", id, f.name, jv, err)
				} else {
					r.res.HarnessErr = fmt.Sprintf("twin colupdate failed: %v", err)
				}
				return
			}
		}
		nv := copyStrMap(r.model[id])
		nv[f.name] = jv
		r.model[id] = nv
		r.res.Stats["partial_document_updates"]++
	case "delete":
		ids := r.liveIDs()
		if len(ids) == 0 {
			return
		}
		id := ids[mod(s.A, len(ids))]
		q := fmt.Sprintf(`mutation { delete_User(docID: %q) { _docID } }`, id)
		if _, errs := r.ix.GQL(q); len(errs) > 0 {
			r.res.violate("C07", "write-failed-on-indexed-node", "delete/"+writeErrClass(errs), i, "%s: %v", q, errs)
			return
		}
		if _, errs := r.pl.GQL(q); len(errs) > 0 {
			r.res.HarnessErr = fmt.Sprintf("twin delete failed: %v", errs)
			return
		}
		delete(r.model, id)
		r.res.Stats["deletes"]++
	case "book":
		ids := r.liveIDs()
		author := "null"
		if s.C != 0 && len(ids) > 0 {
			author = fmt.Sprintf("%q", ids[mod(s.A, len(ids))])
		}
		q := fmt.Sprintf(`mutation { create_Book(input: {title: "b%d", rating: %d.5, author: %s}) { _docID } }`, i, s.B, author)
		if _, errs := r.ix.GQL(q); len(errs) > 0 {
			r.res.violate("C07", "write-failed-on-indexed-node", "book", i, "%s: %v", q, errs)
			return
		}
		if _, errs := r.pl.GQL(q); len(errs) > 0 {
			r.res.HarnessErr = fmt.Sprintf("twin book failed: %v", errs)
		}
	case "remote":
		r.remote(i, s)
	case "ixtoggle":
		ixd := c07IndexPool[mod(s.A, len(c07IndexPool))]
		if r.p.cfg("ixmask", 0)>>uint(mod(s.A, len(c07IndexPool)))&1 == 0 {
			return
		}
		if r.active[ixd.name] {
			r.dropIndex(ixd.name)
		} else {
			r.createIndex(ixd)
		}
	case "restart":
		st := r.ix.Store
		r.ix.Close()
		setRandStep("restart")
		n, err := startNode(r.ctx, "ix", st.Reopen(-1), NodeOpts{})
		if err != nil {
			r.res.violate("C07", "restart-failed", "", i, "%v", err)
			return
		}
		r.ix = n
		r.res.Stats["restarts"]++
	case "check":
		r.check(i, s.A)
	}
	synctest.Wait()
	r.ix.TakeUpdates()
	r.pl.TakeUpdates()
}

func dedupParts(parts []string) []string {
	seen := map[string]bool{}
	var out []string
	for i := len(parts) - 1; i >= 0; i-- {
		k := parts[i][:strings.Index(parts[i], ":")]
		if !seen[k] {
			seen[k] = true
			out = append([]string{parts[i]}, out...)
		}
	}
	return out
}

func copyStrMap(m map[string]string) map[string]string {
	out := map[string]string{}
	for k, v := range m {
		out[k] = v
	}
	return out
}

// gqlToJSON converts the GraphQL literals of the pools to their JSON form (for the model).
func gqlToJSON(l string) string {
	switch l {
	case "0.0":
		return "0"
	case "100.0":
		return "100"
	}
	return l
}

func (r *c07Run) colCreate(n *SimNode, js string) (id string, err error) {
	defer func() {
		if p := recover(); p != nil {
			err = fmt.Errorf("PANIC: %v @ %s", p, panicSite())
		}
	}()
	col, err := n.DB.GetCollectionByName(n.reqCtx(), "User")
	if err != nil {
		return "", err
	}
	doc, err := client.NewDocFromJSON([]byte(js), col.Definition())
	if err != nil {
		return "", err
	}
	if err := col.Create(n.reqCtx(), doc); err != nil {
		return "", err
	}
	return doc.ID().String(), nil
}

// remote: a third node writes (its own documents), both twins merge the commits.
func (r *c07Run) remote(i int, s Step) {
	rm := r.rm
	var docID string
	switch {
	case s.A == 0 || len(r.remoteDocs) == 0:
		// remote documents use a value range of their own for the fields that may carry a unique index
		k := len(r.remoteDocs)
		js := fmt.Sprintf(`{"name": "remote%d", "age": %d, "score": %d.5, "tags": ["r"], "nums": [%d], "points": 2, "active": true}`, k, 5000+k, k, 7000+k)
		id, err := r.colCreate(rm, js)
		if err != nil {
			r.res.HarnessErr = "remote create: " + err.Error()
			return
		}
		docID = id
		r.remoteDocs = append(r.remoteDocs, id)
	case s.A == 1:
		docID = r.remoteDocs[mod(s.C, len(r.remoteDocs))]
		f := c07Fields[mod(s.D, len(c07Fields))]
		if f.name == "age" || f.name == "name" || f.name == "nums" {
			f = *c07FieldByName("score")
		}
		lit := f.gql[mod(s.B, len(f.gql))]
		if _, errs := rm.GQL(fmt.Sprintf(`mutation { update_User(docID: %q, input: {%s: %s}) { _docID } }`, docID, f.name, lit)); len(errs) > 0 {
			if strings.Contains(strings.Join(errs, ";"), "not found") {
				return // deleted on the remote
			}
			r.res.HarnessErr = fmt.Sprintf("remote update: %v", errs)
			return
		}
	default:
		docID = r.remoteDocs[mod(s.C, len(r.remoteDocs))]
		if _, errs := rm.GQL(fmt.Sprintf(`mutation { delete_User(docID: %q) { _docID } }`, docID)); len(errs) > 0 {
			return
		}
	}
	synctest.Wait()
	e1 := &e1Run{}
	for _, up := range rm.TakeUpdates() {
		if up.DocID == "" {
			continue
		}
		for _, target := range []*SimNode{r.ix, r.pl} {
			if err := e1.copyBlocks(rm, target, up.Cid, map[string]bool{}); err != nil {
				r.res.HarnessErr = "copy: " + err.Error()
				return
			}
			err := safeMerge(target, event.Merge{DocID: up.DocID, Cid: up.Cid, CollectionID: r.colID})
			if err != nil {
				if target == r.ix {
					r.res.violate("C07", "merge-failed-on-indexed-node", errClass(err), i, "merge of a remote commit failed on the indexed node: %v", err)
				} else {
					r.res.HarnessErr = "twin merge failed: " + err.Error()
				}
				return
			}
		}
		r.res.Stats["remote_commits_merged"]++
	}
}

// ---- request generation and comparison ----------------------------------------------

func (r *c07Run) next() int {
	r.rng64 = r.rng64*6364136223846793005 + 1442695040888963407
	return int(r.rng64 >> 33)
}

func (r *c07Run) cond() (string, string) {
	f := c07Fields[mod(r.next(), len(c07Fields))]
	lit := f.gql[mod(r.next(), len(f.gql))]
	var ops []string
	switch f.kind {
	case "string":
		ops = []string{"_eq", "_ne", "_gt", "_ge", "_lt", "_le", "_in", "_nin", "_like", "_nlike", "_ilike"}
	case "int", "float", "counter", "time":
		ops = []string{"_eq", "_ne", "_gt", "_ge", "_lt", "_le", "_in", "_nin"}
	case "bool":
		ops = []string{"_eq", "_ne", "_in", "_nin"}
	case "strarr", "intarr":
		ops = []string{"_any", "_all", "_none"}
	case "json":
		ops = []string{"_eq", "_ne", "_in"}
	}
	op := ops[mod(r.next(), len(ops))]
	if r.p.cfg("avoid", 0) == 1 {
		if f.kind == "json" || f.kind == "counter" {
			f = c07Fields[mod(r.next(), 5)]
			lit = f.gql[mod(r.next(), len(f.gql))]
			op = []string{"_eq", "_ne", "_in", "_nin"}[mod(r.next(), 4)]
		}
		if op == "_all" {
			op = "_any"
		}
	}
	switch {
	case op == "_in" || op == "_nin":
		lit2 := f.gql[mod(r.next(), len(f.gql))]
		lit = "[" + lit + ", " + lit2 + "]"
	case op == "_like" || op == "_nlike" || op == "_ilike":
		lit = []string{`"a%"`, `"%b"`, `"%n%"`, `"ann"`, `"%"`, `"A%"`, `""`, `"%%"`, `"%a b"`}[mod(r.next(), 9)]
	case f.kind == "strarr":
		el := []string{`"x"`, `"y"`, `""`, `"zz"`}[mod(r.next(), 4)]
		lit = fmt.Sprintf("{%s: %s}", []string{"_eq", "_ne"}[mod(r.next(), 2)], el)
	case f.kind == "intarr":
		lit = fmt.Sprintf("{%s: %d}", []string{"_eq", "_ne", "_gt", "_lt"}[mod(r.next(), 4)], []int{1, 3, 0, -1}[mod(r.next(), 4)])
	case (op == "_gt" || op == "_ge" || op == "_lt" || op == "_le") && lit == "null":
		lit = f.gql[0]
	}
	tag := f.kind + ":" + op
	if f.kind == "strarr" || f.kind == "intarr" {
		tag += ":" + lit[1:strings.Index(lit, ":")]
	}
	if f.kind == "json" && (strings.HasPrefix(lit, "[") || strings.HasPrefix(lit, "{")) && op != "_in" {
		tag += ":composite-constant"
	}
	if lit == "null" {
		tag += ":null"
	}
	return fmt.Sprintf("%s: {%s: %s}", f.name, op, lit), tag
}

func (r *c07Run) check(i int, seed int) {
	r.rng64 = uint64(seed)*2654435761 + uint64(r.p.Seed)
	nreq := 12
	for k := 0; k < nreq && len(r.res.Viols) == 0; k++ {
		c1, tag := r.cond()
		filter := "{" + c1 + "}"
		r.parts = []condPart{{c1, tag}}
		switch mod(r.next(), 5) {
		case 0:
			c2, t2 := r.cond()
			filter = fmt.Sprintf("{_and: [{%s}, {%s}]}", c1, c2)
			tag += "&" + t2
			r.parts = append(r.parts, condPart{c2, t2})
		case 1:
			c2, t2 := r.cond()
			filter = fmt.Sprintf("{_or: [{%s}, {%s}]}", c1, c2)
			tag += "|" + t2
			r.parts = append(r.parts, condPart{c2, t2})
		}
		args := "filter: " + filter
		orderField := ""
		if mod(r.next(), 3) == 0 {
			of := []string{"name", "age", "score", "born", "points", "active"}[mod(r.next(), 6)]
			if r.p.cfg("avoid", 0) == 1 && (of == "points" || strings.Contains(tag, "_in")) {
				of = "active"
			}
			dir := []string{"ASC", "DESC"}[mod(r.next(), 2)]
			if mod(r.next(), 4) == 0 {
				// two sort keys
				of2 := []string{"age", "name", "active", "score"}[mod(r.next(), 4)]
				if of2 == of {
					of2 = "born"
				}
				dir2 := []string{"ASC", "DESC"}[mod(r.next(), 2)]
				args += fmt.Sprintf(", order: [{%s: %s}, {%s: %s}]", of, dir, of2, dir2)
				orderField = of + "," + of2
				tag += "/order2:" + of + "+" + of2
			} else {
				args += fmt.Sprintf(", order: {%s: %s}", of, dir)
				orderField = of
				tag += "/order:" + of
			}
			if mod(r.next(), 2) == 0 {
				args += fmt.Sprintf(", limit: %d", 1+mod(r.next(), 4))
				if mod(r.next(), 2) == 0 {
					args += fmt.Sprintf(", offset: %d", mod(r.next(), 3))
				}
				tag += "/limit"
			}
		}
		if mod(r.next(), 9) == 0 {
			args = strings.Replace(args, "filter: "+filter, "", 1)
			args = strings.TrimPrefix(args, ", ")
			r.parts = nil
			tag = "nofilter" + tag[strings.Index(tag+"/", "/"):]
			if args == "" {
				args = "showDeleted: false"
			}
		}
		if mod(r.next(), 8) == 0 {
			args += ", showDeleted: true"
			tag += "/showDeleted"
		}
		q := fmt.Sprintf("query { User(%s) { _docID _deleted name age score active born tags nums meta points } }", args)
		r.compare(i, q, "User", orderField, tag)
		r.parts = nil
	}
	// point lookups of values that documents actually hold: every indexed field alone, and the
	// tuple of the first two fields of a composite index together
	if len(r.res.Viols) == 0 {
		ids := r.liveIDs()
		nLook := 3
		if r.active["ux_nums"] || r.active["ix_nums"] || r.active["ix_tags"] {
			nLook = len(ids) // an array index: every live document's elements are looked up
		}
		for k := 0; k < nLook && k < len(ids) && len(r.res.Viols) == 0; k++ {
			doc := r.model[ids[mod(r.next(), len(ids))]]
			if nLook == len(ids) {
				doc = r.model[ids[k]]
			}
			for _, ixd := range c07IndexPool {
				if !r.active[ixd.name] || len(r.res.Viols) > 0 {
					continue
				}
				if fd := c07FieldByName(ixd.fields[0].Name); len(ixd.fields) == 1 && fd != nil && (fd.kind == "intarr" || fd.kind == "strarr") {
					// an index on an array: look every element up that the document holds
					var xs []any
					if json.Unmarshal([]byte(doc[fd.name]), &xs) == nil {
						for _, x := range xs {
							if x == nil || len(r.res.Viols) > 0 {
								continue
							}
							r.parts = nil
							q := fmt.Sprintf("query { User(filter: {%s: {_any: {_eq: %s}}}) { _docID name %s } }", fd.name, canon(x), fd.name)
							r.compare(i, q, "User", "", "point-lookup/"+fd.kind+":_any:_eq")
						}
					}
					continue
				}
				var conds, tags []string
				ok := true
				for _, f := range ixd.fields {
					fd := c07FieldByName(f.Name)
					v := doc[f.Name]
					if fd == nil || fd.kind == "json" || fd.kind == "counter" || fd.kind == "strarr" || fd.kind == "intarr" {
						ok = false
						break
					}
					usable := false
					for _, g := range fd.gql {
						if gqlToJSON(g) == v {
							usable = true
							v = g
						}
					}
					if !usable {
						ok = false
						break
					}
					conds = append(conds, fmt.Sprintf("%s: {_eq: %s}", f.Name, v))
					tags = append(tags, fd.kind+":_eq")
				}
				if !ok {
					continue
				}
				r.parts = nil
				q := fmt.Sprintf("query { User(filter: {%s}) { _docID name age score active born } }", strings.Join(conds, ", "))
				r.compare(i, q, "User", "", "point-lookup/"+strings.Join(tags, "+"))
			}
		}
	}
	// reads at a commit with a filter (the state at the commit, not the index, decides)
	if len(r.res.Viols) == 0 {
		ids := r.liveIDs()
		for k := 0; k < 2 && k < len(ids) && len(r.res.Viols) == 0; k++ {
			id := ids[mod(r.next(), len(ids))]
			data, errs := r.pl.GQL(fmt.Sprintf(`query { commits(docID: %q, fieldName: "_C") { cid } }`, id))
			cs := rows(data, "commits")
			if len(errs) > 0 || len(cs) == 0 {
				continue
			}
			cid := fmt.Sprint(cs[mod(r.next(), len(cs))]["cid"])
			// the two nodes hold the same history only if every write took the same path on both
			if d2, e2 := r.ix.GQL(fmt.Sprintf(`query { commits(cid: %q) { cid } }`, cid)); len(e2) > 0 || len(rows(d2, "commits")) == 0 {
				r.res.Stats["at_commit_reads_skipped_histories_differ"]++
				continue
			}
			c1, tag := r.cond()
			r.parts = nil
			q := fmt.Sprintf("query { User(cid: %q, docID: %q, filter: {%s}) { _docID name age score active born tags nums meta points } }", cid, id, c1)
			r.compare(i, q, "User", "", "at-commit/"+tag)
			r.res.Stats["at_commit_reads_compared"]++
		}
	}
	// relation reads through the (possibly indexed) foreign key
	if len(r.res.Viols) == 0 {
		r.compare(i, `query { Book(filter: {author: {age: {_ge: 1}}}) { _docID title rating author_id } }`, "Book", "", "Book.author.age")
		ids := r.liveIDs()
		if len(ids) > 0 && len(r.res.Viols) == 0 {
			r.compare(i, fmt.Sprintf(`query { Book(filter: {author_id: {_eq: %q}}) { _docID title } }`, ids[0]), "Book", "", "Book.author_id")
		}
		if len(r.res.Viols) == 0 {
			r.compare(i, `query { Book(filter: {rating: {_gt: 2.5}}, order: {rating: DESC}) { _docID rating } }`, "Book", "rating", "Book.rating")
		}
		// negative conditions and ordering through the relation (books without an author are part of the answer)
		relq := []struct{ q, tag string }{
			{`query { Book(filter: {author: {age: {_ne: 21}}}) { _docID title } }`, "Book.author.age:_ne"},
			{`query { Book(filter: {author: {name: {_ne: "ann"}}}) { _docID title } }`, "Book.author.name:_ne"},
			{`query { Book(filter: {author: {age: {_nin: [21, 22]}}}) { _docID title } }`, "Book.author.age:_nin"},
			{`query { Book(order: {author: {age: DESC}}) { _docID title } }`, "Book.order-by-author.age"},
			{`query { Book(order: {author: {name: ASC}}) { _docID title } }`, "Book.order-by-author.name"},
			{`query { Book(filter: {author: {age: {_eq: null}}}) { _docID title } }`, "Book.author.age:_eq:null"},
		}
		for k := 0; k < 2 && len(r.res.Viols) == 0; k++ {
			rq := relq[mod(r.next(), len(relq))]
			r.compare(i, rq.q, "Book", "", rq.tag)
		}
	}
	r.res.Stats["checkpoints"]++
}

func (r *c07Run) compare(i int, q, col, orderField, tag string) {
	di, ei := r.ix.GQL(q)
	dp, ep := r.pl.GQL(q)
	r.res.Stats["requests_compared"]++
	if len(ep) > 0 {
		// the request is rejected without indexes too: both must reject
		if len(ei) == 0 {
			r.res.violate("C07", "indexed-accepts-what-plain-rejects", opClass(tag), i, "%s: plain node: %v, indexed node returned data", q, ep)
		}
		r.res.Stats["requests_rejected_on_both"]++
		return
	}
	if len(ei) > 0 {
		r.res.violate("C07", "request-fails-with-index", "request-fails-with-index/"+r.attribute(tag), i, "%s fails on the indexed node only (indexes %v): %v", q, sortedKeys(r.active), ei)
		return
	}
	ri, rp := rows(di, col), rows(dp, col)
	if orderField != "" {
		var ki, kp []string
		key := func(row map[string]any) string {
			var ks []string
			for _, f := range strings.Split(orderField, ",") {
				v := row[f]
				if f == "born" {
					v = normTime(v)
				}
				ks = append(ks, normNum(canon(v)))
			}
			return strings.Join(ks, "/")
		}
		for _, row := range ri {
			ki = append(ki, key(row))
		}
		for _, row := range rp {
			kp = append(kp, key(row))
		}
		if strings.Join(ki, ",") != strings.Join(kp, ",") {
			cls := "sort-key-sequence-differs/" + r.attribute(tag)
			if strings.Contains(orderField, ",") {
				// two sort keys: do the sequences of the first key agree?
				first := func(ks []string) string {
					var out []string
					for _, k := range ks {
						out = append(out, k[:strings.Index(k+"/", "/")])
					}
					return strings.Join(out, ",")
				}
				if first(ki) == first(kp) {
					cls = "sort-key-sequence-differs/second-key-only/" + tag
				}
			}
			if via := r.culpritIndexKind(q, col, func(rs []map[string]any) bool {
				var kf []string
				for _, row := range rs {
					kf = append(kf, key(row))
				}
				return strings.Join(kf, ",") == strings.Join(kp, ",")
			}); via != "" {
				cls = "sort-key-sequence-differs/" + via + "/" + tag
			}
			r.res.violate("C07", "sort-key-sequence-differs", cls, i,
				"%s (indexes %v): sort keys with indexes %v, without %v", q, sortedKeys(r.active), ki, kp)
			return
		}
		if strings.Contains(q, "limit:") {
			// rows cut by limit may differ among equal sort keys: compare keys only
			r.noteUse(q, tag)
			return
		}
	}
	a, b := multiset(ri), multiset(rp)
	if a != b {
		if ex, errs := r.ix.GQL(strings.Replace(q, "query {", "query @explain(type: execute) {", 1)); len(errs) == 0 {
			r.res.logf("  explain(indexed): %s", canon(ex))
		}
		if ex, errs := r.ix.GQL(strings.Replace(q, "query {", "query @explain {", 1)); len(errs) == 0 {
			r.res.logf("  explain-simple(indexed): %s", canon(ex))
		}
		cls := "result-differs/" + r.attribute(tag)
		if via := r.culpritIndexKind(q, col, func(rs []map[string]any) bool { return multiset(rs) == b }); via != "" {
			cls = "result-differs/" + via + "/" + r.attribute(tag)
		}
		r.res.violate("C07", "result-differs", cls, i,
			"%s (indexes %v): with indexes %s, without %s", q, sortedKeys(r.active), short(a), short(b))
		return
	}
	r.noteUse(q, tag)
}

func opClass(tag string) string {
	// field:op of the first condition (+ order/limit markers)
	return tag
}

func multiset(rs []map[string]any) string {
	var xs []string
	for _, r := range rs {
		if b, ok := r["born"]; ok && b != nil {
			// the same instant may come back with the offset it was written with or in UTC: one value
			rc := map[string]any{}
			for k, v := range r {
				rc[k] = v
			}
			rc["born"] = normTime(b)
			r = rc
		}
		xs = append(xs, canon(r))
	}
	sort.Strings(xs)
	return strings.Join(xs, "\n")
}

// noteUse records (sampled) whether the indexed node answered the request through an index.
func (r *c07Run) noteUse(q, tag string) {
	if mod(r.next(), 4) != 0 {
		return
	}
	eq := strings.Replace(q, "query {", "query @explain(type: execute) {", 1)
	d, errs := r.ix.GQL(eq)
	if len(errs) > 0 {
		return
	}
	if reIndexFetches.MatchString(canon(d)) {
		r.res.Stats["requests_served_from_index"]++
		r.shape[strings.Join(sortedKeys(r.active), "+")+"|"+tag] = true
	}
}

func writeErrClass(errs []string) string {
	e := strings.Join(errs, ";")
	if strings.Contains(e, "ix_points") {
		return "counter:_index-corrupted"
	}
	if strings.Contains(e, "corrupted index") {
		return "corrupted-index"
	}
	if strings.Contains(e, "PANIC") {
		return "panic"
	}
	return "error"
}

// culpritIndexKind: when the two nodes disagree, find out whether dropping one single index (on a fork of the
// indexed node) makes them agree, and if that index is of a kind with a recorded finding, name the kind.
// Used for the class of a violation only.
func (r *c07Run) culpritIndexKind(q, col string, agrees func([]map[string]any) bool) string {
	for _, ixd := range c07IndexPool {
		if !r.active[ixd.name] {
			continue
		}
		kind := ""
		if len(ixd.fields) > 1 {
			for _, f := range ixd.fields {
				if fd := c07FieldByName(f.Name); fd != nil && (fd.kind == "strarr" || fd.kind == "intarr") {
					kind = "array-composite-index"
				}
			}
		}
		if kind == "" {
			continue
		}
		n, err := startNode(r.ctx, "fork", r.ix.Store.Fork(), NodeOpts{})
		if err != nil {
			continue
		}
		agree := false
		if c, err := n.DB.GetCollectionByName(n.reqCtx(), "User"); err == nil && c.DropIndex(n.reqCtx(), ixd.name) == nil {
			if d, errs := n.GQL(q); len(errs) == 0 && agrees(rows(d, col)) {
				agree = true
			}
		}
		n.Close()
		if agree {
			return kind
		}
	}
	return ""
}
