package verifsim

import (
	"os"
	"runtime/debug"
	"strings"
	"context"
	"crypto/ed25519"
	"crypto/sha256"
	"encoding/binary"
	"fmt"
	"sort"
	"sync"

	"github.com/decred/dcrd/dcrec/secp256k1/v4"
	"github.com/ipfs/go-cid"
	"github.com/sourcenetwork/immutable"

	"github.com/sourcenetwork/defradb/acp/dac"
	"github.com/sourcenetwork/defradb/acp/identity"
	"github.com/sourcenetwork/defradb/client"
	"github.com/sourcenetwork/defradb/crypto"
	"github.com/sourcenetwork/defradb/event"
	"github.com/sourcenetwork/defradb/internal/datastore"
	"github.com/sourcenetwork/defradb/internal/db"
	"github.com/sourcenetwork/defradb/internal/encryption"
	"github.com/sourcenetwork/defradb/node"
)

// SimNode is one real DefraDB instance on a SimStore.
type SimNode struct {
	Name  string
	Store *SimStore
	DB    *db.DB
	ctx   context.Context
	stop  context.CancelFunc
	Ident immutable.Option[identity.Identity]

	mu         sync.Mutex
	updates    []event.Update // drained from the bus, in arrival order
	merges     []event.MergeComplete
	subResults []subResult
	sub        event.Subscription
	subDone    chan struct{}

	// ServeKeys: how the simulated KMS answers key requests of this node.
	// nil = answer with no keys.
	ServeKeys func(links [][]byte) []encryption.Item

	dacOpt  immutable.Option[dac.DocumentACP]
	dbOpts  []db.Option
	Crashed bool
}

type NodeOpts struct {
	Ident   immutable.Option[identity.Identity] // request identity (signing)
	DAC     immutable.Option[dac.DocumentACP]
	DBOpts  []db.Option
	Retries int
}

// seededIdentity derives a full identity from (seed, label).
func seededIdentity(seed int64, label string, ed bool) identity.FullIdentity {
	h := sha256.New()
	var b [8]byte
	binary.LittleEndian.PutUint64(b[:], uint64(seed))
	h.Write(b[:])
	h.Write([]byte(label))
	sum := h.Sum(nil)
	var pk crypto.PrivateKey
	if ed {
		pk = crypto.NewPrivateKey(ed25519.NewKeyFromSeed(sum))
	} else {
		pk = crypto.NewPrivateKey(secp256k1.PrivKeyFromBytes(sum))
	}
	id, err := identity.FromPrivateKey(pk)
	if err != nil {
		panic(err)
	}
	return id
}

func startNode(parent context.Context, name string, store *SimStore, o NodeOpts) (*SimNode, error) {
	ctx, cancel := context.WithCancel(parent)
	n := &SimNode{Name: name, Store: store, ctx: ctx, stop: cancel, Ident: o.Ident, dacOpt: o.DAC, dbOpts: o.DBOpts}
	nac, err := db.NewNACInfo(ctx, "", false)
	if err != nil {
		cancel()
		return nil, err
	}
	lens, err := node.NewLens(ctx)
	if err != nil {
		cancel()
		return nil, err
	}
	dacv := o.DAC
	if !dacv.HasValue() {
		dacv = dac.NoDocumentACP
	}
	d, err := db.NewDB(ctx, store, nac, dacv, lens, o.DBOpts...)
	if err != nil {
		cancel()
		return nil, err
	}
	n.DB = d
	sub, err := d.Events().Subscribe(event.UpdateName, event.MergeCompleteName, encryption.RequestKeysEventName)
	if err != nil {
		cancel()
		return nil, err
	}
	n.sub = sub
	n.subDone = make(chan struct{})
	go n.drain()
	return n, nil
}

func (n *SimNode) drain() {
	defer close(n.subDone)
	for msg := range n.sub.Message() {
		switch e := msg.Data.(type) {
		case event.Update:
			n.mu.Lock()
			n.updates = append(n.updates, e)
			n.mu.Unlock()
		case event.MergeComplete:
			n.mu.Lock()
			n.merges = append(n.merges, e)
			n.mu.Unlock()
		case encryption.RequestKeysEvent:
			var items []encryption.Item
			if n.ServeKeys != nil {
				links := make([][]byte, 0, len(e.Keys))
				for _, l := range e.Keys {
					links = append(links, l.Cid.Bytes())
				}
				items = n.ServeKeys(links)
			}
			e.Resp <- encryption.Result{Items: items}
		}
	}
}

// TakeUpdates returns and clears the update events seen so far.
func (n *SimNode) TakeUpdates() []event.Update {
	n.mu.Lock()
	defer n.mu.Unlock()
	u := n.updates
	n.updates = nil
	return u
}

func (n *SimNode) TakeMerges() []event.MergeComplete {
	n.mu.Lock()
	defer n.mu.Unlock()
	u := n.merges
	n.merges = nil
	return u
}

// Close shuts the node down cleanly (closes the store).
func (n *SimNode) Close() {
	if n.DB != nil {
		n.DB.Close()
	}
	n.stop()
	if n.subDone != nil {
		<-n.subDone
	}
}

// Crash abandons the node: the store is fenced first, so nothing more becomes
// durable; then the context is cancelled and resources are released.
func (n *SimNode) Crash() {
	n.Store.Fence()
	n.Crashed = true
	n.stop()
	if n.DB != nil {
		n.DB.Events().Close()
	}
	if n.subDone != nil {
		<-n.subDone
	}
	n.Store.CloseBase()
}

func (n *SimNode) reqCtx() context.Context {
	ctx := n.ctx
	if n.Ident.HasValue() {
		ctx = identity.WithContext(ctx, n.Ident)
	}
	return ctx
}

// GQL executes a request and returns (data, error strings).
func (n *SimNode) GQL(req string) (map[string]any, []string) {
	return gqlOn(n.reqCtx(), n.DB, req)
}

func (n *SimNode) GQLAs(id immutable.Option[identity.Identity], req string) (map[string]any, []string) {
	ctx := identity.WithContext(n.ctx, id)
	return gqlOn(ctx, n.DB, req)
}

func gqlOn(ctx context.Context, s client.Store, req string) (data map[string]any, errs []string) {
	defer func() {
		if r := recover(); r != nil {
			errs = append(errs, fmt.Sprintf("PANIC: %v @ %s", r, panicSite()))
			if gqlTrace {
				fmt.Fprintf(os.Stderr, "GQL-PANIC %s: %v\n%s\n", req, r, debug.Stack())
			}
		}
	}()
	res := s.ExecRequest(ctx, req)
	if gqlTrace && strings.HasPrefix(req, "mutation") {
		fmt.Fprintf(os.Stderr, "GQL %s -> %v %v\n", req, res.GQL.Data, res.GQL.Errors)
	}
	for _, e := range res.GQL.Errors {
		errs = append(errs, e.Error())
	}
	if m, ok := res.GQL.Data.(map[string]any); ok {
		data = m
	}
	return data, errs
}

// rows extracts a list result as []map[string]any.
func rows(data map[string]any, key string) []map[string]any {
	if data == nil {
		return nil
	}
	switch v := data[key].(type) {
	case []map[string]any:
		return v
	case []any:
		out := make([]map[string]any, 0, len(v))
		for _, x := range v {
			if m, ok := x.(map[string]any); ok {
				out = append(out, m)
			}
		}
		return out
	}
	return nil
}

// sortRows sorts rows by the canonical encoding of the given key then whole row.
func sortRows(rs []map[string]any, key string) []map[string]any {
	out := append([]map[string]any(nil), rs...)
	sort.SliceStable(out, func(i, j int) bool {
		a, b := fmt.Sprint(out[i][key]), fmt.Sprint(out[j][key])
		if a != b {
			return a < b
		}
		return canon(out[i]) < canon(out[j])
	})
	return out
}

// blockstore helpers ------------------------------------------------------

func (n *SimNode) blockstore() datastore.Blockstore {
	return datastore.BlockstoreFrom(n.DB.Rootstore())
}

func (n *SimNode) hasBlock(c cid.Cid) bool {
	ok, err := n.blockstore().Has(n.ctx, c)
	return err == nil && ok
}

func (n *SimNode) getBlock(c cid.Cid) ([]byte, error) {
	b, err := n.blockstore().Get(n.ctx, c)
	if err != nil {
		return nil, err
	}
	return b.RawData(), nil
}

// gqlTrace prints every mutation to stderr (debugging aid, VERIF_GQLTRACE=1); it has no effect on the run.
var gqlTrace = os.Getenv("VERIF_GQLTRACE") != ""
