package verifsim

import (
	"bytes"
	"context"
	"encoding/json"
	"fmt"
	"os"
	"path/filepath"
	"sort"
	"strings"
	"testing/synctest"

	"github.com/sourcenetwork/defradb/client"
)

// C18 — export followed by import reproduces the data; importing is atomic.

const c18SDL = `type User {
  name: String
  age: Int
  big: Int
  ratio: Float
  when: DateTime
  data: Blob
  meta: JSON
  tags: [String]
  nums: [Int]
  flag: Boolean
  nick: String @default(string: "none")
  level: Int @default(int: 40)
  huge: Float
  books: [Book]
}
type Book {
  title: String
  rating: Float
  author: User
}
type Node {
  label: String
  weight: Int
  parent: Node @primary @relation(name: "tree")
  child: Node @relation(name: "tree")
}
type Emp {
  name: String
  grade: Int
  boss: Emp @relation(name: "line")
  reports: [Emp] @relation(name: "line")
  mentor: Emp @relation(name: "guide")
  mentees: [Emp] @relation(name: "guide")
}
`

var c18Vals = map[string][]string{
	"name":  {`"ann"`, `""`, `"q\"uote"`, `"line\nbreak"`, `"ünï"`, `"tab\there"`, `null`},
	"age":   {`0`, `-1`, `21`, `2147483647`, `-2147483648`, `null`},
	"big":   {`9007199254740993`, `-9007199254740993`, `9223372036854775807`, `-9223372036854775808`, `4294967296`, `1`, `null`},
	"ratio": {`0.5`, `-1.25`, `1e300`, `5e-324`, `3.141592653589793`, `100`, `null`, `-0.0`},
	"when":  {`"2020-01-01T00:00:00Z"`, `"1999-12-31T23:59:59.123456789Z"`, `"2038-01-19T03:14:08.000000001Z"`, `null`},
	"data":  {`"00ff"`, `""`, `"deadbeef"`, `null`},
	"meta":  {`{"a": [1, 2.5, null, "x"], "b": {"c": true}}`, `[1, 2, 3]`, `"str"`, `12345678901234567890`, `17`, `null`, `{"big": 9007199254740993}`},
	"tags":  {`[]`, `["x"]`, `["x", "", "y z"]`, `null`},
	"nums":  {`[]`, `[1, -1, 9007199254740993]`, `[0]`, `null`},
	"flag":  {`true`, `false`, `null`},
}

func genC18(seed int64, tier string) *Plan {
	r := newRng(seed, 18)
	p := &Plan{Prop: "C18", Engine: "E3", Seed: seed, Cfg: map[string]int{}}
	p.Cfg["pretty"] = r.IntN(2)
	p.Cfg["subset"] = pick(r, []int{0, 0, 0, 1})
	p.Cfg["sign"] = 0
	p.Cfg["users"] = 1 + r.IntN(5)
	p.Cfg["books"] = r.IntN(5)
	p.Cfg["nodes"] = r.IntN(4)
	p.Cfg["maxsites"] = 60
	p.Cfg["cuts"] = 12
	if tier == "thorough" {
		p.Cfg["maxsites"] = 100000
		p.Cfg["cuts"] = 60
	}
	// one step per document carries the value selectors
	for i := 0; i < p.Cfg["users"]; i++ {
		p.Steps = append(p.Steps, Step{K: "user", A: r.IntN(1 << 20), B: r.IntN(1 << 20), C: r.IntN(1 << 20), D: r.IntN(1 << 20)})
	}
	for i := 0; i < p.Cfg["books"]; i++ {
		p.Steps = append(p.Steps, Step{K: "book", A: r.IntN(64), B: r.IntN(64), C: r.IntN(3)})
	}
	for i := 0; i < p.Cfg["nodes"]; i++ {
		p.Steps = append(p.Steps, Step{K: "node", A: r.IntN(64), B: r.IntN(3)})
	}
	// a one-to-many self relation: employees, some their own boss, others reporting to them
	p.Cfg["emps"] = pick(r, []int{0, 0, 2, 3, 4, 6})
	for i := 0; i < p.Cfg["emps"]; i++ {
		p.Steps = append(p.Steps, Step{K: "emp", A: r.IntN(64), B: r.IntN(4), C: r.IntN(64)})
	}
	// updates: a document that was updated gets a new identifier on import, so relations must follow the mapping
	p.Cfg["upd"] = pick(r, []int{0, 1, 2, 3, 5})
	for i := 0; i < p.Cfg["upd"]; i++ {
		p.Steps = append(p.Steps, Step{K: "upd", A: r.IntN(7), B: r.IntN(64), C: r.IntN(64)})
	}
	// own stream of choices: fields with a default value (absent / a value / an explicit null), a float beyond
	// the range, and updates that make two self references, reference cycles, documents with equal content
	rd := newRng(seed, 181)
	for i := range p.Steps {
		if p.Steps[i].K != "user" {
			continue
		}
		var extra []string
		switch rd.IntN(3) {
		case 1:
			extra = append(extra, `"nick": "x`+fmt.Sprint(rd.IntN(3))+`"`)
		case 2:
			extra = append(extra, `"nick": null`)
		}
		switch rd.IntN(3) {
		case 1:
			extra = append(extra, `"level": `+fmt.Sprint(rd.IntN(100)))
		case 2:
			extra = append(extra, `"level": null`)
		}
		if chance(rd, 4) {
			extra = append(extra, `"huge": 1e999`)
		} else if chance(rd, 30) {
			extra = append(extra, `"huge": 1.7976931348623157e308`)
		}
		p.Steps[i].S = strings.Join(extra, ", ")
	}
	for i, n := 0, pick(rd, []int{0, 0, 1, 2, 3}); i < n; i++ {
		p.Steps = append(p.Steps, Step{K: "upd", A: 7 + rd.IntN(4), B: rd.IntN(64), C: rd.IntN(64)})
	}
	p.Steps = append(p.Steps, Step{K: "import", D: r.IntN(64)})
	return p
}

type c18Doc map[string]any

// queryAll returns collection -> docID -> row (all scalar fields incl. relation ids).
func c18QueryAll(n *SimNode) (map[string]map[string]map[string]any, error) {
	out := map[string]map[string]map[string]any{}
	sels := map[string]string{
		"User": "_docID name age big ratio when data meta tags nums flag nick level huge",
		"Book": "_docID title rating author_id",
		"Node": "_docID label weight parent_id",
		"Emp":  "_docID name grade boss_id mentor_id",
	}
	for col, sel := range sels {
		data, errs := n.GQL(fmt.Sprintf("query { %s { %s } }", col, sel))
		if len(errs) > 0 {
			return nil, fmt.Errorf("%s: %v", col, errs)
		}
		out[col] = map[string]map[string]any{}
		for _, row := range rows(data, col) {
			out[col][fmt.Sprint(row["_docID"])] = row
		}
	}
	return out, nil
}

// c18HasCycle: some document reaches itself over the relation fields through at least one other document.
func c18HasCycle(all map[string]map[string]map[string]any) bool {
	next := map[string][]string{}
	for _, docs := range all {
		for id, row := range docs {
			for f, v := range row {
				if strings.HasSuffix(f, "_id") && v != nil && fmt.Sprint(v) != id {
					next[id] = append(next[id], fmt.Sprint(v))
				}
			}
		}
	}
	for start := range next {
		seen := map[string]bool{}
		stack := append([]string{}, next[start]...)
		for len(stack) > 0 {
			x := stack[len(stack)-1]
			stack = stack[:len(stack)-1]
			if x == start {
				return true
			}
			if seen[x] {
				continue
			}
			seen[x] = true
			stack = append(stack, next[x]...)
		}
	}
	return false
}

func parseExport(path string) (map[string][]map[string]any, error) {
	b, err := os.ReadFile(path)
	if err != nil {
		return nil, err
	}
	dec := json.NewDecoder(bytes.NewReader(b))
	dec.UseNumber()
	var out map[string][]map[string]any
	if err := dec.Decode(&out); err != nil {
		return nil, err
	}
	return out, nil
}

func runC18(p *Plan, res *Result) {
	ctx, cancel := context.WithCancel(context.Background())
	defer cancel()
	src := &e3World{p: p, res: res, ctx: ctx, env: &callEnv{}, sdl: c18SDL}
	dst := &e3World{p: p, res: res, ctx: ctx, env: &callEnv{}, sdl: c18SDL}
	dir := scratchDir(p.Seed)
	defer os.RemoveAll(dir)
	if !src.start() {
		src.close()
		return
	}
	defer src.close()
	s := src.n
	users, err := s.DB.GetCollectionByName(s.reqCtx(), "User")
	if err != nil {
		src.fail("%v", err)
		return
	}
	var userIDs, nodeIDs, bookIDs, empIDs []string
	// situations with a recorded finding of their own are named in the class of what is reported about the
	// fidelity of such a run (the atomicity clauses are not affected)
	nonFinite := false
	ctxTag := ""
	orderDependent := false
	defer func() {
		for _, v := range res.Viols {
			switch v.Clause {
			case "export-failed", "import-failed", "value-changed", "document-missing", "id-mapping-wrong", "document-count", "re-export-differs", "missing-id-mapping":
				if nonFinite && v.Clause == "export-failed" {
					v.Class += "/non-finite-float"
				} else if ctxTag != "" {
					v.Class += ctxTag
				}
			}
		}
	}()
	for i, st := range p.Steps {
		setRandStep(fmt.Sprintf("step|%d", i))
		switch st.K {
		case "user":
			fields := []string{"name", "age", "big", "ratio", "when", "data", "meta", "tags", "nums", "flag"}
			sel := []int{st.A, st.A >> 8, st.B, st.B >> 8, st.C, st.C >> 8, st.D, st.D >> 8, st.A >> 4, st.B >> 4}
			var parts []string
			parts = append(parts, fmt.Sprintf(`"name": "u%d-%s"`, i, strings.Trim(c18Vals["name"][mod(sel[0], len(c18Vals["name"])-1)], `"`)))
			for k, f := range fields[1:] {
				v := c18Vals[f][mod(sel[k+1], len(c18Vals[f]))]
				if v == "null" {
					continue
				}
				parts = append(parts, fmt.Sprintf("%q: %s", f, v))
			}
			if st.S != "" {
				parts = append(parts, st.S)
				if strings.Contains(st.S, "1e999") {
					nonFinite = true
				}
			}
			js := "{" + strings.Join(parts, ", ") + "}"
			doc, err := client.NewDocFromJSON([]byte(js), users.Definition())
			if err != nil {
				src.fail("NewDocFromJSON %s: %v", js, err)
				return
			}
			if err := users.Create(s.reqCtx(), doc); err != nil {
				src.fail("create %s: %v", js, err)
				return
			}
			userIDs = append(userIDs, doc.ID().String())
		case "book":
			author := "null"
			if st.C != 0 && len(userIDs) > 0 {
				author = fmt.Sprintf("%q", userIDs[mod(st.B, len(userIDs))])
			}
			data, errs := s.GQL(fmt.Sprintf(`mutation { create_Book(input: {title: "b%d", rating: %d.25, author: %s}) { _docID } }`, i, mod(st.A, 9), author))
			if len(errs) > 0 {
				src.fail("create book: %v", errs)
				return
			}
			bookIDs = append(bookIDs, fmt.Sprint(rows(data, "create_Book")[0]["_docID"]))
		case "emp":
			boss := "null"
			if st.B != 0 && len(empIDs) > 0 {
				boss = fmt.Sprintf("%q", empIDs[mod(st.C, len(empIDs))])
			}
			data, errs := s.GQL(fmt.Sprintf(`mutation { create_Emp(input: {name: "e%d", grade: %d, boss: %s}) { _docID } }`, i, mod(st.A, 9), boss))
			if len(errs) > 0 {
				src.fail("create emp: %v", errs)
				return
			}
			empIDs = append(empIDs, fmt.Sprint(rows(data, "create_Emp")[0]["_docID"]))
		case "upd":
			var q string
			switch st.A {
			case 4:
				// an employee who is their own boss
				if len(empIDs) > 0 {
					id := empIDs[mod(st.B, len(empIDs))]
					if _, errs := s.GQL(fmt.Sprintf(`mutation { update_Emp(docID: %q, input: {boss: %q}) { _docID } }`, id, id)); len(errs) == 0 {
						res.Stats["self_references"]++
					}
				}
			case 6:
				// a deleted document stays behind in the collection; it is not part of what is exported
				switch mod(st.C, 3) {
				case 0:
					if len(userIDs) > 1 {
						q = fmt.Sprintf(`mutation { delete_User(docID: %q) { _docID } }`, userIDs[mod(st.B, len(userIDs))])
					}
				case 1:
					if len(bookIDs) > 0 {
						q = fmt.Sprintf(`mutation { delete_Book(docID: %q) { _docID } }`, bookIDs[mod(st.B, len(bookIDs))])
					}
				default:
					if len(empIDs) > 0 {
						q = fmt.Sprintf(`mutation { delete_Emp(docID: %q) { _docID } }`, empIDs[mod(st.B, len(empIDs))])
					}
				}
				if q != "" {
					res.Stats["deletes_before_export"]++
				}
			case 5:
				if len(empIDs) > 0 {
					q = fmt.Sprintf(`mutation { update_Emp(docID: %q, input: {grade: %d}) { _docID } }`, empIDs[mod(st.B, len(empIDs))], 100+st.C)
				}
			case 7:
				// an employee who is their own boss and their own mentor
				if len(empIDs) > 0 {
					id := empIDs[mod(st.B, len(empIDs))]
					if _, errs := s.GQL(fmt.Sprintf(`mutation { update_Emp(docID: %q, input: {boss: %q, mentor: %q}) { _docID } }`, id, id, id)); len(errs) == 0 {
						res.Stats["two_self_references"]++
					}
				}
			case 8:
				// any employee as the boss (or mentor) of any other: cycles over several documents
				if len(empIDs) > 1 {
					f := "boss"
					if st.C&1 == 1 {
						f = "mentor"
					}
					q = fmt.Sprintf(`mutation { update_Emp(docID: %q, input: {%s: %q}) { _docID } }`, empIDs[mod(st.B, len(empIDs))], f, empIDs[mod(st.C>>1, len(empIDs))])
				}
			case 9:
				// an employee takes the name and grade of another one: with equal relations the two have equal content
				if len(empIDs) > 1 {
					x, y := empIDs[mod(st.B, len(empIDs))], empIDs[mod(st.C, len(empIDs))]
					if x != y {
						data, errs := s.GQL(fmt.Sprintf(`query { Emp(docID: %q) { name grade } }`, y))
						if rs := rows(data, "Emp"); len(errs) == 0 && len(rs) == 1 {
							q = fmt.Sprintf(`mutation { update_Emp(docID: %q, input: {name: %s, grade: %s}) { _docID } }`, x, canon(rs[0]["name"]), canon(rs[0]["grade"]))
						}
					}
				}
			case 10:
				// a field with a default value is set to null afterwards
				if len(userIDs) > 0 {
					f := "nick"
					if st.C&1 == 1 {
						f = "level"
					}
					q = fmt.Sprintf(`mutation { update_User(docID: %q, input: {%s: null}) { _docID } }`, userIDs[mod(st.B, len(userIDs))], f)
				}
			case 0:
				if len(userIDs) > 0 {
					q = fmt.Sprintf(`mutation { update_User(docID: %q, input: {age: %d}) { _docID } }`, userIDs[mod(st.B, len(userIDs))], 100+st.C)
				}
			case 1:
				if len(bookIDs) > 0 {
					author := "null"
					if st.C&1 == 1 && len(userIDs) > 0 {
						author = fmt.Sprintf("%q", userIDs[mod(st.C>>1, len(userIDs))])
					}
					q = fmt.Sprintf(`mutation { update_Book(docID: %q, input: {rating: %d.75, author: %s}) { _docID } }`, bookIDs[mod(st.B, len(bookIDs))], mod(st.C, 9), author)
				}
			case 2:
				if len(nodeIDs) > 0 {
					q = fmt.Sprintf(`mutation { update_Node(docID: %q, input: {weight: %d}) { _docID } }`, nodeIDs[mod(st.B, len(nodeIDs))], 100+st.C)
				}
			default:
				// a node that is its own parent (refused when the node already is somebody's parent)
				if len(nodeIDs) > 0 {
					id := nodeIDs[mod(st.B, len(nodeIDs))]
					if _, errs := s.GQL(fmt.Sprintf(`mutation { update_Node(docID: %q, input: {parent: %q}) { _docID } }`, id, id)); len(errs) == 0 {
						res.Stats["self_references"]++
					}
				}
			}
			if q != "" {
				if _, errs := s.GQL(q); len(errs) > 0 {
					src.fail("update %s: %v", q, errs)
					return
				}
				res.Stats["updates_before_export"]++
			}
		case "node":
			parent := "null"
			if st.B != 0 && len(nodeIDs) > 0 {
				parent = fmt.Sprintf("%q", nodeIDs[len(nodeIDs)-1])
			}
			data, errs := s.GQL(fmt.Sprintf(`mutation { create_Node(input: {label: "n%d", weight: %d, parent: %s}) { _docID } }`, i, st.A, parent))
			if len(errs) > 0 {
				// a one-to-one link already taken: create without parent
				data, errs = s.GQL(fmt.Sprintf(`mutation { create_Node(input: {label: "n%d", weight: %d}) { _docID } }`, i, st.A))
				if len(errs) > 0 {
					src.fail("create node: %v", errs)
					return
				}
			}
			nodeIDs = append(nodeIDs, fmt.Sprint(rows(data, "create_Node")[0]["_docID"]))
		}
	}
	synctest.Wait()
	s.TakeUpdates()
	file := filepath.Join(dir, "export.json")
	cfg := &client.BackupConfig{Filepath: file, Pretty: p.cfg("pretty", 0) == 1}
	subset := p.cfg("subset", 0) == 1
	if subset {
		cfg.Collections = []string{"User", "Book"}
	}
	xerr, xpanic := func() (err error, p string) {
		defer func() {
			if r := recover(); r != nil {
				p = fmt.Sprintf("%v @ %s", r, panicSite())
			}
		}()
		return s.DB.BasicExport(s.reqCtx(), cfg), ""
	}()
	if xerr != nil || xpanic != "" {
		res.violate("C18", "export-failed", "export-failed/"+errClassStr(fmt.Sprint(xerr, xpanic)), 0, "export of a healthy database failed: %v %s", xerr, xpanic)
		return
	}
	if rawFile, rerr := os.ReadFile(file); rerr == nil && os.Getenv("VERIF_SHOWFILE") != "" {
		fmt.Println(string(rawFile))
	}
	exported, err := parseExport(file)
	if err != nil {
		res.violate("C18", "export-not-json", "", 0, "export file is not valid JSON: %v", err)
		return
	}
	srcRows, err := c18QueryAll(s)
	if err != nil {
		src.fail("query source: %v", err)
		return
	}
	mapping := map[string]string{}
	for _, docs := range exported {
		newIDs := map[string]bool{}
		for _, d := range docs {
			mapping[fmt.Sprint(d["_docID"])] = fmt.Sprint(d["_docIDNew"])
			if newIDs[fmt.Sprint(d["_docIDNew"])] {
				ctxTag = "/equal-content"
			}
			newIDs[fmt.Sprint(d["_docIDNew"])] = true
		}
	}
	for _, docs := range exported {
		for _, d := range docs {
			n := 0
			for f, v := range d {
				if strings.HasSuffix(f, "_id") && v != nil && fmt.Sprint(v) == fmt.Sprint(d["_docIDNew"]) {
					n++
				}
			}
			if n > 1 {
				orderDependent = true
			}
		}
	}
	if c18HasCycle(srcRows) {
		ctxTag = "/with-reference-cycle"
		res.Stats["reference_cycles"]++
	}
	if ctxTag == "/equal-content" {
		res.Stats["documents_with_equal_content"]++
	}
	// fidelity oracle, applied to a node after a successful import
	fidelity := func(n *SimNode, when string) bool {
		tgt, err := c18QueryAll(n)
		if err != nil {
			res.violate("C18", "unreadable-after-import", when, 0, "%v", err)
			return false
		}
		for col, docs := range srcRows {
			if subset && (col == "Node" || col == "Emp") {
				continue
			}
			if len(tgt[col]) != len(docs) {
				res.violate("C18", "document-count", col+"/"+when, 0, "%s: source has %d documents, target %d (%s)", col, len(docs), len(tgt[col]), when)
				return false
			}
			for oldID, row := range docs {
				newID, ok := mapping[oldID]
				if !ok {
					res.violate("C18", "missing-id-mapping", col, 0, "%s %s has no _docIDNew in the file", col, oldID)
					return false
				}
				trow := tgt[col][newID]
				if trow == nil {
					// find the document by its unique marker field to say what changed
					marker := map[string]string{"User": "name", "Book": "title", "Node": "label", "Emp": "name"}[col]
					for tid, cand := range tgt[col] {
						if canon(cand[marker]) == canon(row[marker]) {
							for f, v := range row {
								if f == "_docID" || strings.HasSuffix(f, "_id") {
									continue
								}
								if canon(cand[f]) != canon(v) {
									res.violate("C18", "value-changed", "value-changed/"+col+"."+f+"/"+valueClass(v), 0,
										"%s.%s of %s: source %s, after import %s; the document was imported as %s although the file announces %s (%s)",
										col, f, oldID, canon(v), canon(cand[f]), tid, newID, when)
									return false
								}
							}
							res.violate("C18", "id-mapping-wrong", "id-mapping-wrong/"+col, 0, "%s %s: the file announces new id %s, the import created %s (%s)", col, oldID, newID, tid, when)
							return false
						}
					}
					res.violate("C18", "document-missing", col+"/"+when, 0, "%s %s (new id %s) is not in the target (%s)", col, oldID, newID, when)
					return false
				}
				for f, v := range row {
					if f == "_docID" {
						continue
					}
					want := canon(v)
					if strings.HasSuffix(f, "_id") && v != nil {
						if m, ok := mapping[fmt.Sprint(v)]; ok {
							want = canon(m)
						} else {
							// the relation points to a document that is not in the file although its collection is
							// (every relation of the compared collections stays within them): it was deleted, there
							// is nothing to relate to after the import
							want = "null"
						}
					}
					if got := canon(trow[f]); got != want {
						res.violate("C18", "value-changed", "value-changed/"+col+"."+f+"/"+valueClass(v), 0,
							"%s.%s of %s: source %s, after import %s (%s)", col, f, oldID, want, got, when)
						return false
					}
				}
			}
		}
		return true
	}
	// ---- target ------------------------------------------------------------
	if !dst.start() {
		dst.close()
		return
	}
	defer dst.close()
	k0 := dst.n.Store.DurableLen()
	d0, err := fullDump(dst.n, true)
	if err != nil {
		dst.fail("dump: %v", err)
		return
	}
	importCall := &apiCall{Kind: "basicImport", Run: func(n *SimNode, h *handles) error { return n.DB.BasicImport(n.reqCtx(), file) }}
	// twin: fault-free import, site list, fidelity
	setRandStep("twin-start")
	twin, err := startNode(ctx, "t", dst.n.Store.Fork(), dst.opts)
	if err != nil {
		dst.fail("twin: %v", err)
		return
	}
	twin.Store.BeginWindow(true)
	setRandStep("call")
	terr, tpanic := safeCall(importCall, twin, nil)
	sites := twin.Store.EndWindow()
	synctest.Wait()
	twin.TakeUpdates()
	if tpanic != "" || terr != nil {
		twin.Close()
		res.violate("C18", "import-failed", "import-failed/"+errClassStr(fmt.Sprint(terr, tpanic)), 0, "import of a freshly exported file failed: %v %s", terr, tpanic)
		return
	}
	okFid := fidelity(twin, "import")
	var d1 map[string]string
	if okFid {
		d1, err = fullDump(twin, true)
		if err != nil {
			dst.fail("dump twin: %v", err)
		}
		// re-export of the imported database is equivalent
		file2 := filepath.Join(dir, "export2.json")
		cfg2 := *cfg
		cfg2.Filepath = file2
		if err := twin.DB.BasicExport(twin.reqCtx(), &cfg2); err != nil {
			res.violate("C18", "re-export-failed", "", 0, "%v", err)
		} else if re, err := parseExport(file2); err != nil {
			res.violate("C18", "re-export-not-json", "", 0, "%v", err)
		} else if df := compareExports(exported, re); df != "" {
			res.violate("C18", "re-export-differs", "re-export-differs/"+strings.SplitN(df, ":", 2)[0], 0, "%s", df)
		}
	}
	twin.Close()
	if !okFid || len(res.Viols) > 0 || res.HarnessErr != "" {
		return
	}
	res.Stats["imports_checked_for_fidelity"]++
	// ---- atomicity under storage faults ----------------------------------------
	var distinct []Site
	seen := map[string]bool{}
	for _, st := range sites {
		if !seen[st.String()] {
			seen[st.String()] = true
			distinct = append(distinct, st)
		}
	}
	// canonical order: DefraDB walks Go maps (the fields of a document), so the order in which a call reaches
	// its storage operations is not a function of the seed; the set of sites is
	sort.Slice(distinct, func(i, j int) bool { return distinct[i].String() < distinct[j].String() })
	if max := p.cfg("maxsites", 60); len(distinct) > max {
		rr := newRng(p.Seed, 78)
		keep := map[int]bool{}
		for len(keep) < max {
			keep[rr.IntN(len(distinct))] = true
		}
		var sub []Site
		for i, st := range distinct {
			if keep[i] {
				sub = append(sub, st)
			}
		}
		distinct = sub
	}
	shape := map[string]bool{}
	importStep := p.Steps[len(p.Steps)-1]
	checkUnchanged := func(what, cls string, cerr error) bool {
		if dst.n.Store.DurableLen() != k0 {
			res.violate("C18", "import-not-atomic", "import-not-atomic/"+cls, 0, "%s: import reported %v but %d batch(es) became durable", what, cerr, dst.n.Store.DurableLen()-k0)
			return false
		}
		d, derr := fullDump(dst.n, true)
		if derr != nil {
			res.violate("C18", "unreadable-after-failed-import", cls, 0, "%s: %v", what, derr)
			return false
		}
		if df := diffDump(d0, d); df != "" {
			res.violate("C18", "import-not-atomic", "import-not-atomic/"+cls+"/"+dumpSection(df), 0, "%s: import reported %v but the target changed: %s", what, cerr, df)
			return false
		}
		return true
	}
	restore := func() bool {
		if dst.n.Store.DurableLen() != k0 {
			if !dst.restartAt(k0) {
				return false
			}
			synctest.Wait()
			dst.n.TakeUpdates()
		}
		return true
	}
	for si, site := range distinct {
		ferr, fkind := siteErr(site, importStep.D+si)
		dst.n.Store.BeginWindow(false)
		dst.n.Store.FailSite(site, ferr)
		setRandStep("call")
		cerr, cpanic := safeCall(importCall, dst.n, nil)
		fired := len(dst.n.Store.Fired()) > 0
		dst.n.Store.ClearFaults()
		synctest.Wait()
		evs := dst.n.TakeUpdates()
		cls := site.Kind + "|" + keyClass(site.Key)
		if fired {
			res.Stats["fault_"+fkind]++
			shape["site|"+cls] = true
		}
		if cpanic != "" {
			res.violate("C18", "panic", "panic/"+cls, si, "import panicked when %s on %q failed: %s", site.Kind, site.Key, cpanic)
			return
		}
		if cerr != nil {
			if len(evs) > 0 {
				res.violate("C18", "import-not-atomic", "events/"+cls, si, "failed import published %d notifications", len(evs))
				return
			}
			if !checkUnchanged(fmt.Sprintf("fault %s #%d on %q", site.Kind, site.Occ, site.Key), cls, cerr) {
				return
			}
			continue
		}
		d, derr := fullDump(dst.n, true)
		if orderDependent && derr == nil {
			// the import sets the self references of a document one update after the other in the order of a Go
			// map: with two of them the commits of two complete imports differ; the documents do not
			d1c, dc := map[string]string{}, map[string]string{}
			for k, v := range d1 {
				if k != "commits" && k != "heads" {
					d1c[k] = v
				}
			}
			for k, v := range d {
				if k != "commits" && k != "heads" {
					dc[k] = v
				}
			}
			if diffDump(d1c, dc) == "" {
				res.Stats["imports_compared_without_commit_history"]++
				if !restore() {
					return
				}
				continue
			}
		}
		if derr != nil || diffDump(d1, d) != "" {
			res.violate("C18", "import-partial-success", "import-partial-success/"+cls, si, "import reported success (fault %s on %q fired=%v) but the target differs from a complete import: %s %v", site.Kind, site.Key, fired, diffDump(d1, d), derr)
			return
		}
		if !restore() {
			return
		}
	}
	// ---- torn / short files -------------------------------------------------------
	raw, _ := os.ReadFile(file)
	cuts := map[int]bool{}
	for i, b := range raw { // structural boundaries
		if b == '{' || b == '}' || b == '[' || b == ']' || b == ',' {
			cuts[i] = true
			cuts[i+1] = true
		}
	}
	var cutList []int
	for c := range cuts {
		if c > 0 && c < len(raw) {
			cutList = append(cutList, c)
		}
	}
	sort.Ints(cutList)
	rr := newRng(p.Seed, 79)
	ncuts := p.cfg("cuts", 12)
	for k := 0; k < ncuts && len(cutList) > 0; k++ {
		cut := cutList[rr.IntN(len(cutList))]
		if k%3 == 2 {
			cut = 1 + rr.IntN(len(raw)-1) // arbitrary byte offset
		}
		tf := filepath.Join(dir, "torn.json")
		_ = os.WriteFile(tf, raw[:cut], 0o644)
		tornCall := &apiCall{Kind: "basicImport", Run: func(n *SimNode, h *handles) error { return n.DB.BasicImport(n.reqCtx(), tf) }}
		setRandStep("call")
		cerr, cpanic := safeCall(tornCall, dst.n, nil)
		synctest.Wait()
		dst.n.TakeUpdates()
		res.Stats["torn_files"]++
		shape["torn"] = true
		if cpanic != "" {
			res.violate("C18", "panic", "panic/torn-file", cut, "import of the file cut at byte %d panicked: %s", cut, cpanic)
			return
		}
		if cerr != nil {
			if !checkUnchanged(fmt.Sprintf("file cut at byte %d of %d", cut, len(raw)), "torn-file", cerr) {
				return
			}
			continue
		}
		// success on a cut file: only legitimate if the prefix is itself valid JSON
		var tmp any
		if json.Unmarshal(raw[:cut], &tmp) != nil {
			res.violate("C18", "torn-file-accepted", "torn-file-accepted", cut, "import of the file cut at byte %d of %d (not valid JSON) reported success", cut, len(raw))
			return
		}
		if !restore() {
			return
		}
	}
	// ---- complete import, restart, data still there ----------------------------------
	setRandStep("call")
	cerr, cpanic := safeCall(importCall, dst.n, nil)
	synctest.Wait()
	dst.n.TakeUpdates()
	if cerr != nil || cpanic != "" {
		res.violate("C18", "import-failed-after-failed-attempts", "", 0, "%v %s", cerr, cpanic)
		return
	}
	if !fidelity(dst.n, "import-after-failed-attempts") {
		return
	}
	if !dst.restartAt(-1) {
		return
	}
	if !fidelity(dst.n, "restart-after-import") {
		return
	}
	res.Stats["sites_failed"] += len(distinct)
	res.ShapeSet = sortedCopy(keysOf(shape))
	res.Shape = strings.Join(res.ShapeSet, ";")
	res.Nontrivial = len(shape) > 0
}

func keysOf(m map[string]bool) []string {
	var out []string
	for k := range m {
		out = append(out, k)
	}
	return out
}

func errClassStr(s string) string {
	if len(s) > 50 {
		s = s[:50]
	}
	return strings.ReplaceAll(s, " ", "-")
}

func valueClass(v any) string {
	switch x := v.(type) {
	case nil:
		return "null"
	case int64:
		if x > 1<<53 || x < -(1<<53) {
			return "int-beyond-2^53"
		}
		return "int"
	case float64:
		return "float"
	case string:
		return "string"
	case bool:
		return "bool"
	case []any:
		return "array"
	case map[string]any:
		return "object"
	}
	return fmt.Sprintf("%T", v)
}

// compareExports: same documents per collection (by content, ignoring order); in the re-export old and new ids coincide.
func compareExports(a, b map[string][]map[string]any) string {
	for col, docs := range a {
		var as, bs []string
		for _, d := range docs {
			c := map[string]any{}
			for k, v := range d {
				if k != "_docID" && v != nil { // a null field and an absent one are the same document
					c[k] = v
				}
			}
			as = append(as, canon(c))
		}
		for _, d := range b[col] {
			c := map[string]any{}
			for k, v := range d {
				if k != "_docID" && v != nil {
					c[k] = v
				}
			}
			bs = append(bs, canon(c))
			if fmt.Sprint(d["_docID"]) != fmt.Sprint(d["_docIDNew"]) {
				return fmt.Sprintf("%s: re-exported document %v would change its id again to %v", col, d["_docID"], d["_docIDNew"])
			}
		}
		sort.Strings(as)
		sort.Strings(bs)
		if strings.Join(as, "\n") != strings.Join(bs, "\n") {
			for i := range as {
				if i >= len(bs) || as[i] != bs[i] {
					other := "<none>"
					if i < len(bs) {
						other = bs[i]
					}
					return fmt.Sprintf("%s: export has %s, re-export has %s", col, short(as[i]), short(other))
				}
			}
			return fmt.Sprintf("%s: %d vs %d documents", col, len(as), len(bs))
		}
	}
	return ""
}
