package verifsim

import (
	"context"
	"fmt"
	"strings"
	"testing/synctest"
	"time"

	blocks "github.com/ipfs/go-block-format"
	"github.com/ipfs/go-cid"
	cidlink "github.com/ipld/go-ipld-prime/linking/cid"
	"github.com/ipld/go-ipld-prime/storage/bsadapter"
	"github.com/sourcenetwork/immutable"

	"github.com/sourcenetwork/defradb/acp/identity"
	"github.com/sourcenetwork/defradb/client"
	"github.com/sourcenetwork/defradb/crypto"
	"github.com/sourcenetwork/defradb/event"
	coreblock "github.com/sourcenetwork/defradb/internal/core/block"
	"github.com/sourcenetwork/defradb/internal/datastore"
	"github.com/sourcenetwork/defradb/internal/db"
	defranet "github.com/sourcenetwork/defradb/net"
)

// C12 — signatures authenticate content and author; forged commits are not merged.

func genC12(seed int64, tier string) *Plan {
	r := newRng(seed, 12)
	p := &Plan{Prop: "C12", Engine: "E2", Seed: seed, Cfg: map[string]int{}}
	p.Cfg["ed"] = r.IntN(2)
	p.Cfg["col"] = pick(r, []int{0, 0, 2})
	n := 2 + r.IntN(6)
	p.Steps = append(p.Steps, Step{K: "write", A: 0, C: r.IntN(64), D: r.IntN(64)})
	for i := 0; i < n; i++ {
		p.Steps = append(p.Steps, Step{K: "write", A: pick(r, []int{0, 1, 1, 1, 2}), B: r.IntN(3), C: r.IntN(64), D: r.IntN(64)})
	}
	return p
}

type tamper struct {
	name  string
	apply func(b *coreblock.Block) bool // returns false if not applicable
}

func runC12(p *Plan, res *Result) {
	ctx, cancel := context.WithCancel(context.Background())
	defer cancel()
	installRand(p.Seed)
	net := newSimNet()
	ed := p.cfg("ed", 0) == 1
	signer := seededIdentity(p.Seed, "author", ed)
	other := seededIdentity(p.Seed, "someone-else", ed)
	otherType := seededIdentity(p.Seed, "other-type", !ed)
	optsA := NodeOpts{Ident: immutable.Some[identity.Identity](signer), DBOpts: []db.Option{db.WithEnabledSigning(true)}}
	optsB := NodeOpts{DBOpts: []db.Option{db.WithEnabledSigning(true)}}
	iv := []time.Duration{time.Second}
	setRandStep("startA")
	a, err := net.startE2Node(ctx, 0, NewSimStore(), seededPeerKey(p.Seed, "A"), iv, false, optsA)
	if err != nil {
		res.HarnessErr = "start A: " + err.Error()
		return
	}
	defer a.shutdown()
	setRandStep("startB")
	b, err := net.startE2Node(ctx, 1, NewSimStore(), seededPeerKey(p.Seed, "B"), iv, false, optsB)
	if err != nil {
		res.HarnessErr = "start B: " + err.Error()
		return
	}
	defer b.shutdown()
	setRandStep("startF")
	f, err := net.startE2Node(ctx, 2, NewSimStore(), seededPeerKey(p.Seed, "F"), iv, false, optsB)
	if err != nil {
		res.HarnessErr = "start F: " + err.Error()
		return
	}
	defer f.shutdown()
	sdl := userSDL(p.cfg("col", 0), 0)
	var colID string
	for _, n := range []*e2Node{a, b, f} {
		cols, err := n.DB.AddSchema(n.reqCtx(), sdl)
		if err != nil {
			res.HarnessErr = "schema: " + err.Error()
			return
		}
		colID = cols[0].CollectionID
	}
	synctest.Wait()
	a.TakeUpdates()
	var docIDs []string
	deleted := map[string]bool{}
	shape := map[string]bool{}
	for i, s := range p.Steps {
		if len(res.Viols) > 0 || res.HarnessErr != "" {
			break
		}
		setRandStep(fmt.Sprintf("step|%d", i))
		kind := ""
		switch {
		case s.A == 0 || len(docIDs) == 0:
			data, errs := a.GQL(fmt.Sprintf(`mutation { create_User(input: {name: "d%d", age: %d, points: %d}) { _docID } }`, len(docIDs), 20+mod(s.C, 9), 1+mod(s.D, 5)))
			if len(errs) > 0 {
				res.HarnessErr = fmt.Sprintf("create: %v", errs)
				return
			}
			docIDs = append(docIDs, fmt.Sprint(rows(data, "create_User")[0]["_docID"]))
			kind = "create"
		case s.A == 1:
			id := docIDs[mod(s.B, len(docIDs))]
			if deleted[id] {
				continue
			}
			if _, errs := a.GQL(fmt.Sprintf(`mutation { update_User(docID: %q, input: {name: %q, points: %d}) { _docID } }`, id, e3Names[mod(s.C, len(e3Names))], 1+mod(s.D, 7))); len(errs) > 0 {
				res.HarnessErr = fmt.Sprintf("update: %v", errs)
				return
			}
			kind = "update"
		default:
			id := docIDs[mod(s.B, len(docIDs))]
			if deleted[id] {
				continue
			}
			if _, errs := a.GQL(fmt.Sprintf(`mutation { delete_User(docID: %q) { _docID } }`, id)); len(errs) > 0 {
				res.HarnessErr = fmt.Sprintf("delete: %v", errs)
				return
			}
			deleted[id] = true
			kind = "delete"
		}
		synctest.Wait()
		for _, up := range a.TakeUpdates() {
			if up.DocID == "" {
				continue
			}
			c12Commit(res, i, kind, a, b, f, colID, up, signer, other, otherType, shape)
			if len(res.Viols) > 0 || res.HarnessErr != "" {
				break
			}
		}
	}
	for k, v := range net.stats {
		res.Stats[k] += v
	}
	res.ShapeSet = sortedCopy(keysOf(shape))
	res.Shape = strings.Join(res.ShapeSet, ";")
	res.Nontrivial = len(shape) > 0
}

func c12ReceiverState(n *e2Node) (string, error) {
	d, err := fullDump(n.SimNode, true)
	if err != nil {
		return "", err
	}
	var parts []string
	for _, k := range sortedKeys(d) {
		parts = append(parts, k+"="+d[k])
	}
	return hashStrings(parts...), nil
}

func c12Commit(res *Result, step int, kind string, a, b, f *e2Node, colID string, up event.Update,
	signer, other, otherType identity.FullIdentity, shape map[string]bool) {
	genuine, err := coreblock.GetFromBytes(up.Block)
	if err != nil {
		res.HarnessErr = "decode pushed block: " + err.Error()
		return
	}
	if genuine.Signature == nil {
		res.violate("C12", "commit-not-signed", kind, step, "a commit written while a signing identity was in effect carries no signature (%s)", cidShort(up.Cid.String()))
		return
	}
	// ---- (a) the commit verifies against the author's key and no other ---------------
	if err := a.DB.VerifySignature(a.reqCtx(), up.Cid.String(), signer.PublicKey()); err != nil {
		res.violate("C12", "own-signature-rejected", kind, step, "VerifySignature with the author's key failed for %s: %v", cidShort(up.Cid.String()), err)
		return
	}
	for name, k := range map[string]crypto.PublicKey{"other-key": other.PublicKey(), "other-key-type": otherType.PublicKey()} {
		if err := a.DB.VerifySignature(a.reqCtx(), up.Cid.String(), k); err == nil {
			res.violate("C12", "verifies-under-wrong-key", name+"/"+kind, step, "commit %s verifies under a key that did not sign it (%s)", cidShort(up.Cid.String()), name)
			return
		}
	}
	res.Stats["signatures_verified"]++
	// make everything A has available to the forger's node as well
	r1 := &e1Run{}
	if err := r1.copyBlocks(a.SimNode, f.SimNode, up.Cid, map[string]bool{}); err != nil {
		res.HarnessErr = "copy to forger: " + err.Error()
		return
	}
	// hide A from the exchange while forged pushes are delivered, so that the forger's blocks are what B finds
	sigRaw, err := a.getBlock(genuine.Signature.Cid)
	if err != nil {
		res.HarnessErr = "signature block: " + err.Error()
		return
	}
	sigBlock, err := coreblock.GetSignatureBlockFromBytes(sigRaw)
	if err != nil {
		res.HarnessErr = "decode signature block: " + err.Error()
		return
	}
	putForged := func(raw []byte) (cid.Cid, error) {
		c, err := up.Cid.Prefix().Sum(raw)
		if err != nil {
			return cid.Undef, err
		}
		blk, _ := blocks.NewBlockWithCid(raw, c)
		return c, f.blockstore().Put(f.ctx, blk)
	}
	someOtherCid := genuine.Signature.Cid // any stored block that is not the right target
	otherDoc := "bae-00000000-0000-5000-8000-000000000000"
	// a forged field block: same as a genuine one with different data
	var forgedField cid.Cid
	if len(genuine.Links) > 0 {
		if raw, err := a.getBlock(genuine.Links[0].Link.Cid); err == nil {
			if fb, err := coreblock.GetFromBytes(raw); err == nil {
				fb2 := fb.Clone()
				fb2.Delta.SetData([]byte{0x63, 'e', 'v', 'l'}) // cbor "evl"
				fb2.Signature = nil
				if raw2, err := fb2.Marshal(); err == nil {
					forgedField, _ = putForged(raw2)
				}
			}
		}
	}
	tampers := []tamper{
		{"priority", func(x *coreblock.Block) bool { x.Delta.DocCompositeDelta.Priority += 1; return true }},
		{"docID", func(x *coreblock.Block) bool { x.Delta.DocCompositeDelta.DocID = []byte(otherDoc); return true }},
		{"schemaVersionID", func(x *coreblock.Block) bool { x.Delta.DocCompositeDelta.SchemaVersionID += "x"; return true }},
		{"status", func(x *coreblock.Block) bool {
			if x.Delta.DocCompositeDelta.Status == client.Active {
				x.Delta.DocCompositeDelta.Status = client.Deleted
			} else {
				x.Delta.DocCompositeDelta.Status = client.Active
			}
			return true
		}},
		{"head-replaced", func(x *coreblock.Block) bool {
			if len(x.Heads) == 0 {
				return false
			}
			x.Heads = append([]cidlink.Link{{Cid: someOtherCid}}, x.Heads[1:]...)
			return true
		}},
		{"head-dropped", func(x *coreblock.Block) bool {
			if len(x.Heads) == 0 {
				return false
			}
			x.Heads = x.Heads[1:]
			if len(x.Heads) == 0 {
				x.Heads = nil
			}
			return true
		}},
		{"head-added", func(x *coreblock.Block) bool {
			x.Heads = append(append([]cidlink.Link{}, x.Heads...), cidlink.Link{Cid: someOtherCid})
			return true
		}},
		{"link-replaced-by-forged-field", func(x *coreblock.Block) bool {
			if len(x.Links) == 0 || !forgedField.Defined() {
				return false
			}
			ls := append([]coreblock.DAGLink{}, x.Links...)
			ls[0] = coreblock.DAGLink{Name: ls[0].Name, Link: cidlink.Link{Cid: forgedField}}
			x.Links = ls
			return true
		}},
		{"link-name", func(x *coreblock.Block) bool {
			if len(x.Links) == 0 {
				return false
			}
			ls := append([]coreblock.DAGLink{}, x.Links...)
			ls[0].Name = ls[0].Name + "_"
			x.Links = ls
			return true
		}},
		{"link-dropped", func(x *coreblock.Block) bool {
			if len(x.Links) == 0 {
				return false
			}
			x.Links = append([]coreblock.DAGLink{}, x.Links[1:]...)
			if len(x.Links) == 0 {
				x.Links = nil
			}
			return true
		}},
		{"encryption-link", func(x *coreblock.Block) bool {
			l := cidlink.Link{Cid: someOtherCid}
			x.Encryption = &l
			return true
		}},
	}
	// signature block forgeries: a new block, the link redirected to it
	sigForgeries := []struct {
		name string
		mut  func(s *coreblock.Signature)
	}{
		{"signature-value", func(s *coreblock.Signature) {
			v := append([]byte{}, s.Value...)
			v[len(v)/2] ^= 0x01
			s.Value = v
		}},
		{"signature-type", func(s *coreblock.Signature) {
			if s.Header.Type == coreblock.SignatureTypeEd25519 {
				s.Header.Type = coreblock.SignatureTypeECDSA256K
			} else {
				s.Header.Type = coreblock.SignatureTypeEd25519
			}
		}},
		{"signature-identity", func(s *coreblock.Signature) { s.Header.Identity = []byte(other.PublicKey().String()) }},
	}
	for _, sf := range sigForgeries {
		sf := sf
		tampers = append(tampers, tamper{sf.name, func(x *coreblock.Block) bool {
			s2 := &coreblock.Signature{Header: sigBlock.Header, Value: sigBlock.Value}
			sf.mut(s2)
			raw, err := s2.Marshal()
			if err != nil {
				return false
			}
			c, err := putForged(raw)
			if err != nil {
				return false
			}
			x.Signature = &cidlink.Link{Cid: c}
			return true
		}})
	}
	before, err := c12ReceiverState(b)
	if err != nil {
		res.HarnessErr = "receiver dump: " + err.Error()
		return
	}
	lsys := cidlink.DefaultLinkSystem()
	lsys.SetReadStorage(&bsadapter.Adapter{Wrapped: datastore.BlockstoreFrom(f.DB.Rootstore())})
	lsys.TrustedStorage = true
	type forgedPush struct {
		name, docID string
		c           cid.Cid
		raw         []byte
	}
	var forgedPushes []forgedPush
	for _, tp := range tampers {
		forged := genuine.Clone()
		forged.Heads = append([]cidlink.Link{}, genuine.Heads...)
		if len(forged.Heads) == 0 {
			forged.Heads = nil
		}
		forged.Links = append([]coreblock.DAGLink{}, genuine.Links...)
		if !tp.apply(forged) {
			continue
		}
		raw, err := forged.Marshal()
		if err != nil {
			continue
		}
		fc, err := putForged(raw)
		if err != nil {
			res.HarnessErr = "store forged: " + err.Error()
			return
		}
		// (a') the tampered copy must not verify
		// (the type label of the signature block is not part of what the statement lists: with the
		// author's key supplied, the signed content is still authentic)
		if ok, verr := coreblock.VerifyBlockSignatureWithKey(forged, &lsys, signer.PublicKey()); verr == nil && ok && tp.name != "signature-type" {
			res.violate("C12", "tampered-block-verifies", tp.name+"/"+kind, step, "a copy of commit %s with its %s changed still verifies against the author's key", cidShort(up.Cid.String()), tp.name)
			return
		}
		// (b) byzantine transport: the forged commit arrives at a receiver that has not seen the genuine one
		docID := up.DocID
		if tp.name == "docID" {
			docID = otherDoc
		}
		forgedPushes = append(forgedPushes, forgedPush{tp.name, docID, fc, raw})
		rpcErr := b.Peer.SimHandlePushLog(b.ctx, f.PID, defranet.SimPushLog{DocID: docID, CID: fc.Bytes(), CollectionID: colID, Creator: f.PID.String(), Block: raw})
		synctest.Wait()
		b.TakeMerges()
		res.Stats["tampered_pushes"]++
		if rpcErr != nil {
			res.Stats["tampered_pushes_rejected_by_rpc"]++
		}
		shape[tp.name+"|"+kind] = true
		after, err := c12ReceiverState(b)
		if err != nil {
			res.violate("C12", "receiver-unreadable-after-forged-push", tp.name+"/"+kind, step, "%v", err)
			return
		}
		if after != before {
			res.violate("C12", "forged-commit-merged", "forged-commit-merged/"+tp.name+"/"+kind, step,
				"a %s commit with its %s changed (signature attached, rpc error=%v) changed the receiver's documents, history or heads", kind, tp.name, rpcErr)
			return
		}
	}
	// the genuine commit is then delivered and must be merged (the path is live)
	if err := b.Peer.SimHandlePushLog(b.ctx, a.PID, defranet.SimPushLog{DocID: up.DocID, CID: up.Cid.Bytes(), CollectionID: colID, Creator: a.PID.String(), Block: up.Block}); err != nil {
		res.violate("C12", "genuine-commit-rejected", kind, step, "the genuine signed commit %s was rejected: %v", cidShort(up.Cid.String()), err)
		return
	}
	synctest.Wait()
	if len(b.TakeMerges()) == 0 {
		res.violate("C12", "genuine-commit-not-merged", kind, step, "the genuine signed commit %s was accepted but not merged", cidShort(up.Cid.String()))
		return
	}
	res.Stats["genuine_pushes_merged"]++
	// and verifies on the receiver as well
	if err := b.DB.VerifySignature(b.reqCtx(), up.Cid.String(), signer.PublicKey()); err != nil {
		res.violate("C12", "own-signature-rejected", "receiver/"+kind, step, "on the receiver VerifySignature failed for %s: %v", cidShort(up.Cid.String()), err)
		return
	}
	// (c) the same forged commits once more, now that the receiver has verified and merged the genuine one
	// (whatever it remembers about the genuine signature must not vouch for them)
	afterGenuine, err := c12ReceiverState(b)
	if err != nil {
		res.HarnessErr = "receiver dump: " + err.Error()
		return
	}
	for _, fp := range forgedPushes {
		rpcErr := b.Peer.SimHandlePushLog(b.ctx, f.PID, defranet.SimPushLog{DocID: fp.docID, CID: fp.c.Bytes(), CollectionID: colID, Creator: f.PID.String(), Block: fp.raw})
		synctest.Wait()
		b.TakeMerges()
		res.Stats["tampered_pushes_after_genuine"]++
		after, err := c12ReceiverState(b)
		if err != nil {
			res.violate("C12", "receiver-unreadable-after-forged-push", fp.name+"/"+kind, step, "%v", err)
			return
		}
		if after != afterGenuine {
			res.violate("C12", "forged-commit-merged", "forged-commit-merged/after-genuine/"+fp.name+"/"+kind, step,
				"a %s commit with its %s changed (signature attached, rpc error=%v), pushed after the genuine commit had been merged, changed the receiver's documents, history or heads", kind, fp.name, rpcErr)
			return
		}
	}
}
