package verifsim

import (
	"sort"
	"context"
	"fmt"
	"strings"
	"testing/synctest"
	"time"

	"github.com/libp2p/go-libp2p/core/peer"
	"github.com/sourcenetwork/immutable"
	"github.com/sourcenetwork/lens/host-go/config/model"

	"github.com/sourcenetwork/defradb/acp/identity"
	"github.com/sourcenetwork/defradb/internal/db"
)

type e2Engine struct{}

func (e2Engine) Name() string { return "E2" }

var c15Intervals = [][]time.Duration{
	{time.Second},
	{2 * time.Second, 10 * time.Second},
	{30 * time.Second, 120 * time.Second},
	{5 * time.Second, 5 * time.Second, 600 * time.Second},
}

func (e2Engine) Gen(prop string, seed int64, tier string) *Plan {
	if prop == "C12" {
		return genC12(seed, tier)
	}
	r := newRng(seed, 15)
	p := &Plan{Prop: prop, Engine: "E2", Seed: seed, Cfg: map[string]int{}}
	p.Cfg["intervals"] = r.IntN(len(c15Intervals))
	p.Cfg["docs"] = 1 + r.IntN(3)
	p.Cfg["col"] = pick(r, []int{0, 0, 2})
	p.Cfg["named"] = r.IntN(2) // replicator for named collections / all collections
	p.Cfg["sign"] = pick(r, []int{0, 0, 1})
	p.Cfg["mode"] = pick(r, []int{0, 0, 0, 1}) // 0 replicator A->B, 1 B subscribed to the collection (pubsub)
	if p.Cfg["mode"] == 0 && chance(r, 40) {
		// structured plan: repeated outage cycles with a write racing the retry of the same document
		p.Cfg["docs"] = 1 + r.IntN(2)
		p.Steps = append(p.Steps, Step{K: "setrep"}, Step{K: "write", A: 0, C: r.IntN(64), D: r.IntN(64)}, Step{K: "net", A: 3})
		if p.Cfg["docs"] == 2 {
			p.Steps = append(p.Steps, Step{K: "write", A: 0, C: r.IntN(64), D: r.IntN(64)}, Step{K: "net", A: 3})
		}
		cycles := 2 + r.IntN(3)
		for c := 0; c < cycles; c++ {
			outage := pick(r, []string{"down", "down", "crash"})
			p.Steps = append(p.Steps, Step{K: outage})
			for w := 0; w < 1+r.IntN(2); w++ {
				p.Steps = append(p.Steps, Step{K: "write", A: 1, B: r.IntN(2), C: r.IntN(64), D: r.IntN(64)})
			}
			if chance(r, 50) {
				p.Steps = append(p.Steps, Step{K: "tick", A: 3}) // a failed retry pass during the outage
			}
			if outage == "crash" {
				p.Steps = append(p.Steps, Step{K: "recover"})
			} else {
				p.Steps = append(p.Steps, Step{K: "up"})
			}
			p.Steps = append(p.Steps, Step{K: "tick", A: 3}) // the retry pass starts; its pushes are pending
			if chance(r, 70) {
				p.Steps = append(p.Steps, Step{K: "write", A: 1, B: r.IntN(2), C: r.IntN(64), D: r.IntN(64)}) // racing write
			}
			if chance(r, 30) {
				p.Steps = append(p.Steps, Step{K: "patch"})
			}
			p.Steps = append(p.Steps, Step{K: "net", A: pick(r, []int{3, 3, 4, 0})}, Step{K: "tick", A: r.IntN(6)}, Step{K: "net", A: 3}, Step{K: "tick", A: 3}, Step{K: "net", A: 3})
		}
		p.Steps = append(p.Steps, Step{K: "settle"})
		p.Cfg["template"] = 1
		insertCrashMidPush(p, seed)
		c15Branchable(p, seed)
		return p
	}
	n := 6 + r.IntN(30)
	repAt := 0
	if chance(r, 30) {
		repAt = 1 + r.IntN(5) // replicator configured after some writes exist (push of all heads)
	}
	p.Steps = append(p.Steps, Step{K: "write", A: 0, B: 0, C: r.IntN(64), D: r.IntN(64)})
	for i := 0; i < n; i++ {
		if i == repAt {
			p.Steps = append(p.Steps, Step{K: "setrep"})
		}
		x := r.IntN(100)
		switch {
		case x < 30:
			p.Steps = append(p.Steps, Step{K: "write", A: pick(r, []int{0, 1, 1, 1, 1, 2}), B: r.IntN(3), C: r.IntN(64), D: r.IntN(64)})
		case x < 55:
			p.Steps = append(p.Steps, Step{K: "net", A: pick(r, []int{0, 0, 1, 2, 3, 3, 3, 4}), B: r.IntN(8)})
		case x < 63:
			p.Steps = append(p.Steps, Step{K: "down"})
		case x < 71:
			p.Steps = append(p.Steps, Step{K: "up"})
		case x < 77:
			p.Steps = append(p.Steps, Step{K: "crash"})
		case x < 83:
			p.Steps = append(p.Steps, Step{K: "recover"})
		case x < 87:
			p.Steps = append(p.Steps, Step{K: "patch"})
		case x < 90:
			p.Steps = append(p.Steps, Step{K: "fetchfail", A: 1 + r.IntN(3)})
		default:
			p.Steps = append(p.Steps, Step{K: "tick", A: r.IntN(6)})
		}
	}
	p.Steps = append(p.Steps, Step{K: "settle"})
	insertCrashMidPush(p, seed)
	c15Branchable(p, seed)
	return p
}

// c15Branchable makes the collection of some plans branchable (own stream of choices): every write then makes
// a collection-level commit too, which is pushed and retried like the document commits.
func c15Branchable(p *Plan, seed int64) {
	if rb := newRng(seed, 152); p.Cfg["col"] == 0 && chance(rb, 20) {
		p.Cfg["col"] = 1
		if p.Cfg["mode"] == 0 && chance(rb, 35) {
			// the replicator is configured on a node that has documents, its first pushes are left to time
			// out while a write to the unreachable peer has already started the retry loop (short intervals):
			// recording the failed push then competes with the retry pass
			p.Cfg["intervals"] = 0
			p.Cfg["docs"] = 2 + rb.IntN(2)
			pre := []Step{
				{K: "write", A: 0, B: 0, C: rb.IntN(64), D: rb.IntN(64)}, {K: "write", A: 0, B: 1, C: rb.IntN(64), D: rb.IntN(64)},
				{K: "tick", A: 3}, {K: "setrep"}, {K: "tick", A: 5}, {K: "down"},
				{K: "write", A: 1, B: rb.IntN(2), C: rb.IntN(64), D: rb.IntN(64)}, {K: "tick", A: 2}, {K: "up"},
			}
			var rest []Step
			for _, st := range p.Steps {
				if st.K != "setrep" {
					rest = append(rest, st)
				}
			}
			p.Steps = append(pre, rest...)
		}
	}
}

// insertCrashMidPush adds "B crashes while it handles a push" steps after some writes (own stream of choices).
func insertCrashMidPush(p *Plan, seed int64) {
	if p.Cfg["mode"] == 1 {
		return
	}
	rc := newRng(seed, 151)
	if !chance(rc, 35) {
		return
	}
	var steps []Step
	for _, st := range p.Steps {
		steps = append(steps, st)
		if st.K == "write" && chance(rc, 40) {
			steps = append(steps, Step{K: "net", A: 5, B: rc.IntN(8), C: rc.IntN(6)})
		}
	}
	p.Steps = steps
}

func (e2Engine) Run(p *Plan) *Result {
	res := newResult()
	defer res.finish()
	runInBubble(res, func() {
		if p.Prop == "C12" {
			runC12(p, res)
			return
		}
		runC15(p, res)
	})
	return res
}

type c15Run struct {
	prop  string // "C15", or "C14" for the plans that restart the sender (see genC14Sender)
	// excused: documents with a push in flight when the sender stopped and no write since. The update
	// event that caused the push lives in memory only; nothing durable obliges the restarted node to
	// deliver it, so its delivery is not demanded (a later write to the document makes it due again).
	excused map[string]bool
	aKey  []byte
	p     *Plan
	res   *Result
	ctx   context.Context
	net   *simNet
	a, b  *e2Node
	bKey  []byte
	opts  NodeOpts
	start time.Time
	// docs
	docIDs      []string
	deleted     map[string]bool
	history     map[string]map[string]bool // docID -> set of canonical rows A has shown
	patched     bool
	bDown       bool
	bDead       bool
	repSet      bool
	colName     string
	lastFaultAt time.Time
	shape       []string
}

func c15Sel(patched bool) string {
	s := "_docID _deleted name age points"
	if patched {
		s += " extra1"
	}
	return s
}

func (r *c15Run) dump(n *e2Node, patched bool) (map[string]map[string]any, string) {
	data, errs := n.GQL("query { User(showDeleted: true) { " + c15Sel(patched) + " } }")
	if len(errs) > 0 {
		return nil, strings.Join(errs, ";")
	}
	out := map[string]map[string]any{}
	for _, row := range rows(data, "User") {
		out[fmt.Sprint(row["_docID"])] = row
	}
	return out, ""
}

func (r *c15Run) recordA() {
	rowsA, err := r.dump(r.a, r.patched)
	if err != "" {
		r.res.HarnessErr = "dump A: " + err
		return
	}
	for id, row := range rowsA {
		if r.history[id] == nil {
			r.history[id] = map[string]bool{}
		}
		r.history[id][canon(c15Project(row))] = true
	}
}

// c15Project drops the field added by the patch when null, so that rows taken before and after the patch compare.
func c15Project(row map[string]any) map[string]any {
	out := map[string]any{}
	for k, v := range row {
		if k == "extra1" && v == nil {
			continue
		}
		out[k] = v
	}
	return out
}

func runC15(p *Plan, res *Result) {
	runC15As(p, res, "C15")
}

func runC15As(p *Plan, res *Result, prop string) {
	ctx, cancel := context.WithCancel(context.Background())
	defer cancel()
	installRand(p.Seed)
	r := &c15Run{prop: prop, p: p, res: res, ctx: ctx, net: newSimNet(), deleted: map[string]bool{}, history: map[string]map[string]bool{}, start: time.Now()}
	r.opts = NodeOpts{DBOpts: []db.Option{db.WithEnabledSigning(p.cfg("sign", 0) != 0)}}
	if p.cfg("sign", 0) == 1 {
		r.opts.Ident = immutable.Some[identity.Identity](seededIdentity(p.Seed, "shared", false))
	}
	intervals := c15Intervals[mod(p.cfg("intervals", 0), len(c15Intervals))]
	pubsub := true
	var err error
	setRandStep("startA")
	r.aKey = seededPeerKey(p.Seed, "A")
	r.a, err = r.net.startE2Node(ctx, 0, NewSimStore(), r.aKey, intervals, pubsub, r.opts)
	if err != nil {
		res.HarnessErr = "start A: " + err.Error()
		return
	}
	defer func() { r.a.shutdown() }()
	setRandStep("startB")
	r.bKey = seededPeerKey(p.Seed, "B")
	r.b, err = r.net.startE2Node(ctx, 1, NewSimStore(), r.bKey, intervals, pubsub, r.opts)
	if err != nil {
		res.HarnessErr = "start B: " + err.Error()
		return
	}
	defer func() {
		if !r.bDead {
			r.b.shutdown()
		}
	}()
	sdl := userSDL(p.cfg("col", 0), 0)
	var colID string
	_ = colID
	for _, n := range []*e2Node{r.a, r.b} {
		cols, err := n.DB.AddSchema(n.reqCtx(), sdl)
		if err != nil {
			res.HarnessErr = "schema: " + err.Error()
			return
		}
		colID = cols[0].CollectionID
	}
	if p.cfg("mode", 0) == 1 {
		if err := r.b.Peer.AddP2PCollections(r.b.reqCtx(), "User"); err != nil {
			res.HarnessErr = "AddP2PCollections: " + err.Error()
			return
		}
	}
	synctest.Wait()
	maxInterval := time.Duration(0)
	for _, d := range intervals {
		if d > maxInterval {
			maxInterval = d
		}
	}
	for i, s := range p.Steps {
		if len(res.Viols) > 0 || res.HarnessErr != "" {
			break
		}
		setRandStep(fmt.Sprintf("step|%d", i))
		r.exec(i, s, maxInterval)
		synctest.Wait()
		if p.cfg("mode", 0) == 1 {
			r.net.flushPubSub(s.A + s.B + s.C)
			synctest.Wait()
		}
		r.safety(i)
	}
	for k, v := range r.net.stats {
		res.Stats[k] += v
	}
	res.SimTimeS = time.Since(r.start).Seconds()
	res.Shape = hashStrings(r.shape...)
	res.Stats["push_failed_total"] = res.Stats["push_refused_unreachable"] + res.Stats["push_dropped"] + res.Stats["push_timed_out"]
	if res.Stats["push_failed_total"] > 0 && res.Stats["converged"] > 0 {
		res.Stats["runs_converged_after_failed_pushes"]++
	}
	res.Nontrivial = res.Stats["push_failed_total"] > 0 && res.Stats["converged"] > 0
	if p.cfg("mode", 0) == 1 {
		res.Nontrivial = res.Stats["pubsub_delivered"] > 0
	}
}

func (r *c15Run) exec(i int, s Step, maxInterval time.Duration) {
	res := r.res
	if r.p.cfg("mode", 0) == 1 {
		// pubsub has no retry: a message published while B cannot receive it is lost for good, so
		// the statement can only be decided for outages that lose no message. In this mode B stays
		// reachable; the faults are duplication and reordering of pubsub messages and clean restarts.
		switch s.K {
		case "down", "crash", "fetchfail":
			return
		}
	}
	switch s.K {
	case "setrep":
		if r.repSet || r.p.cfg("mode", 0) == 1 {
			return
		}
		var names []string
		if r.p.cfg("named", 0) == 1 {
			names = []string{"User"}
		}
		if err := r.a.Peer.SetReplicator(r.a.reqCtx(), peer.AddrInfo{ID: r.b.PID}, names...); err != nil {
			res.HarnessErr = "SetReplicator: " + err.Error()
			return
		}
		r.repSet = true
		r.shape = append(r.shape, "setrep")
	case "write":
		r.write(i, s)
	case "net":
		pend := r.net.pendingSorted()
		if len(pend) == 0 {
			return
		}
		switch s.A {
		case 0:
			r.net.deliver(pend[mod(s.B, len(pend))], true)
			r.shape = append(r.shape, "deliver")
		case 1:
			r.net.drop(pend[mod(s.B, len(pend))])
			r.lastFaultAt = time.Now()
			r.shape = append(r.shape, "drop")
		case 2:
			// duplicate: the receiver sees the request twice, the sender gets the second answer
			pr := pend[mod(s.B, len(pend))]
			r.net.deliver(pr, false)
			synctest.Wait()
			r.net.deliver(pr, true)
			res.Stats["push_duplicated"]++
			r.shape = append(r.shape, "dup")
		case 3:
			for _, pr := range pend {
				r.net.deliver(pr, true)
			}
			r.shape = append(r.shape, "deliver-all")
		case 4:
			// reorder: deliver the last one first
			r.net.deliver(pend[len(pend)-1], true)
			r.shape = append(r.shape, "deliver-last")
		case 5:
			// B crashes while it handles a push: only the first few of the storage commits the handling makes
			// become durable (the push may or may not have been acknowledged by then); B comes back at once
			if r.bDead || r.p.cfg("mode", 0) == 1 {
				return
			}
			pr := pend[mod(s.B, len(pend))]
			if pr.to != r.b.PID {
				return
			}
			k0 := r.b.Store.DurableLen()
			r.b.Store.FenceAfterCommits(1 + mod(s.C, 6))
			r.net.deliver(pr, true)
			synctest.Wait()
			rowsB, _ := r.dump(r.b, r.patched)
			res.logf("crash-mid-push: durable batches %d -> %d (fence after %d), B shows %d documents before it dies", k0, r.b.Store.DurableLen(), 1+mod(s.C, 6), len(rowsB))
			r.net.mu.Lock()
			r.net.down[r.b.PID] = true
			r.net.mu.Unlock()
			r.b.crash()
			r.net.mu.Lock()
			delete(r.net.nodes, r.b.PID)
			r.net.mu.Unlock()
			r.bDead = true
			res.Stats["b_crashed_while_handling_a_push"]++
			r.lastFaultAt = time.Now()
			r.shape = append(r.shape, "crash-mid-push")
			r.recoverB()
		}
	case "down":
		if r.bDead {
			return
		}
		r.net.mu.Lock()
		r.net.down[r.b.PID] = true
		r.net.mu.Unlock()
		r.bDown = true
		res.Stats["b_unreachable"]++
		r.lastFaultAt = time.Now()
		r.shape = append(r.shape, "down")
	case "up":
		if r.bDead {
			return
		}
		r.net.mu.Lock()
		delete(r.net.down, r.b.PID)
		r.net.mu.Unlock()
		r.bDown = false
		r.shape = append(r.shape, "up")
	case "crash":
		if r.bDead {
			return
		}
		r.net.mu.Lock()
		r.net.down[r.b.PID] = true
		r.net.mu.Unlock()
		r.b.crash()
		r.net.mu.Lock()
		delete(r.net.nodes, r.b.PID)
		r.net.mu.Unlock()
		r.bDead = true
		res.Stats["b_crashed"]++
		r.lastFaultAt = time.Now()
		r.shape = append(r.shape, "crash")
	case "recover":
		r.recoverB()
	case "arestart", "acrash":
		// the sender is closed (or crashes) and is reopened on its store; requests it had in flight are gone
		st := r.a.Store
		if r.excused == nil {
			r.excused = map[string]bool{}
		}
		for _, pr := range r.net.pendingSorted() {
			if pr.from == r.a.PID {
				r.excused[pr.req.DocID] = true
				res.Stats["pushes_in_flight_at_sender_stop"]++
			}
		}
		if s.K == "acrash" {
			r.a.crash() // nothing becomes durable from here on
		} else {
			r.a.shutdown()
		}
		for _, pr := range r.net.pendingSorted() {
			if pr.from == r.a.PID {
				r.net.drop(pr)
			}
		}
		synctest.Wait()
		r.net.mu.Lock()
		delete(r.net.nodes, r.a.PID)
		r.net.mu.Unlock()
		setRandStep("restartA")
		na, err := r.net.startE2Node(r.ctx, 0, st.Reopen(-1), r.aKey, r.a.intervals, r.a.pubsub, r.opts)
		if err != nil {
			res.violate(r.prop, "cannot-restart", s.K, i, "the sender failed to restart: %v", err)
			return
		}
		r.a = na
		res.Stats["a_restarted"]++
		r.lastFaultAt = time.Now()
		r.shape = append(r.shape, s.K)
	case "patch":
		if r.patched {
			return
		}
		if r.bDead {
			r.recoverB()
		}
		patch := `[{"op":"add","path":"/User/Fields/-","value":{"Name":"extra1","Kind":11}}]`
		for _, n := range []*e2Node{r.a, r.b} {
			if err := n.DB.PatchSchema(n.reqCtx(), patch, immutable.None[model.Lens](), true); err != nil {
				res.HarnessErr = "patch: " + err.Error()
				return
			}
		}
		r.patched = true
		res.Stats["schema_patched"]++
		r.shape = append(r.shape, "patch")
		r.recordA()
	case "fetchfail":
		r.net.mu.Lock()
		r.net.fetchFail[r.b.PID] = 1 + i*7 + s.A
		r.net.fetchFailed = map[string]bool{}
		r.net.mu.Unlock()
		r.lastFaultAt = time.Now()
		r.shape = append(r.shape, "fetchfail")
	case "tick":
		d := []time.Duration{time.Second, 3 * time.Second, 11 * time.Second, maxInterval + time.Second, 100 * time.Millisecond, 2 * time.Second}[mod(s.A, 6)]
		time.Sleep(d)
		r.shape = append(r.shape, "tick")
	case "settle":
		r.settle(i, maxInterval)
	}
}

func (r *c15Run) recoverB() {
	if !r.bDead {
		return
	}
	st := r.b.Store.Reopen(-1)
	setRandStep("recoverB")
	nb, err := r.net.startE2Node(r.ctx, 1, st, r.bKey, r.b.intervals, r.b.pubsub, r.opts)
	if err != nil {
		r.res.violate(r.prop, "cannot-restart", "", r.stepNo(), "B failed to restart after a crash: %v", err)
		return
	}
	r.b = nb
	r.bDead = false
	if !r.bDown {
		r.net.mu.Lock()
		delete(r.net.down, r.b.PID)
		r.net.mu.Unlock()
	}
	r.res.Stats["b_recovered"]++
	r.shape = append(r.shape, "recover")
}

func (r *c15Run) stepNo() int { return len(r.shape) }

func (r *c15Run) write(i int, s Step) {
	a := r.a
	written := ""
	name := e3Names[mod(s.C, len(e3Names))]
	switch {
	case s.A == 0 || len(r.docIDs) == 0:
		if len(r.docIDs) >= r.p.cfg("docs", 1) {
			return
		}
		data, errs := a.GQL(fmt.Sprintf(`mutation { create_User(input: {name: "d%d", age: %d, points: %d}) { _docID } }`, len(r.docIDs), 20+mod(s.C, 9), 1+mod(s.D, 5)))
		if len(errs) > 0 {
			r.res.HarnessErr = fmt.Sprintf("create: %v", errs)
			return
		}
		r.docIDs = append(r.docIDs, fmt.Sprint(rows(data, "create_User")[0]["_docID"]))
		written = r.docIDs[len(r.docIDs)-1]
		r.shape = append(r.shape, "create")
	case s.A == 1:
		id := r.docIDs[mod(s.B, len(r.docIDs))]
		if r.deleted[id] {
			return
		}
		in := fmt.Sprintf(`{name: %q, points: %d}`, name, 1+mod(s.D, 7))
		if mod(s.D, 3) == 0 {
			in = fmt.Sprintf(`{age: %d}`, 30+mod(s.C, 9))
		}
		if r.patched && mod(s.D, 2) == 1 {
			in = fmt.Sprintf(`{extra1: "x%d", points: %d}`, mod(s.C, 9), 1+mod(s.D, 7))
		}
		_, errs := a.GQL(fmt.Sprintf(`mutation { update_User(docID: %q, input: %s) { _docID } }`, id, in))
		if len(errs) > 0 {
			r.res.HarnessErr = fmt.Sprintf("update: %v", errs)
			return
		}
		written = id
		r.shape = append(r.shape, "update")
	default:
		id := r.docIDs[mod(s.B, len(r.docIDs))]
		if r.deleted[id] || len(r.docIDs)-len(r.deleted) <= 1 {
			return
		}
		_, errs := a.GQL(fmt.Sprintf(`mutation { delete_User(docID: %q) { _docID } }`, id))
		if len(errs) > 0 {
			r.res.HarnessErr = fmt.Sprintf("delete: %v", errs)
			return
		}
		r.deleted[id] = true
		written = id
		r.shape = append(r.shape, "delete")
	}
	r.res.Stats["writes_on_A"]++
	if written != "" {
		delete(r.excused, written)
	}
	synctest.Wait()
	r.recordA()
}

// safety: whatever B shows for a document is a state A has shown for it.
func (r *c15Run) safety(i int) {
	if r.bDead || len(r.res.Viols) > 0 {
		return
	}
	rowsB, err := r.dump(r.b, r.patched)
	if err != "" {
		r.res.violate(r.prop, "receiver-unreadable", "", i, "B cannot be read: %s", err)
		return
	}
	for id, row := range rowsB {
		if !r.history[id][canon(c15Project(row))] {
			r.res.violate(r.prop, "receiver-state-not-a-sender-state", "", i,
				"B shows %s for %s, which A never showed (A's states: %v)", canon(c15Project(row)), id, sortedKeys(r.history[id]))
			return
		}
	}
}

func (r *c15Run) retryTableEmpty() bool {
	kvs, err := scanPrefix(r.a.ctx, r.a.Store.base, "/db/ps/")
	if err != nil {
		return false
	}
	for _, kv := range kvs {
		if strings.Contains(string(kv.k), "retry") {
			return false
		}
	}
	return true
}

// settle: faults stop, B reachable, no further writes; bounded liveness.
func (r *c15Run) settle(i int, maxInterval time.Duration) {
	if r.p.cfg("mode", 0) == 0 && !r.repSet {
		r.exec(i, Step{K: "setrep"}, maxInterval)
	}
	r.recoverB()
	r.net.mu.Lock()
	r.net.down = map[peer.ID]bool{}
	r.net.fetchFail = map[peer.ID]int{}
	r.net.mu.Unlock()
	r.bDown = false
	if r.p.cfg("mode", 0) == 1 {
		r.net.flushPubSub(0)
		synctest.Wait()
	}
	bound := 2*maxInterval + 60*time.Second
	t0 := time.Now()
	retried := false
	for time.Since(t0) < bound {
		for _, pr := range r.net.pendingSorted() {
			r.net.deliver(pr, true)
		}
		synctest.Wait()
		if r.equalAB() && len(r.net.pendingSorted()) == 0 && (r.p.cfg("col", 0) != 1 || r.colHeads(r.a) == r.colHeads(r.b)) {
			break
		}
		time.Sleep(time.Second)
		synctest.Wait()
		retried = true
	}
	_ = retried
	r.res.Stats["settle_seconds"] += int(time.Since(t0).Seconds())
	if !r.retryTableEmpty() {
		r.res.Stats["probe_retry_table_nonempty_at_end"]++
	}
	da, ea := r.dump(r.a, r.patched)
	dbb, eb := r.dump(r.b, r.patched)
	if ea != "" || eb != "" {
		r.res.violate(r.prop, "unreadable-at-end", "", i, "A: %s B: %s", ea, eb)
		return
	}
	for id := range r.excused {
		delete(da, id)
		delete(dbb, id)
		r.res.Stats["documents_excused_in_flight"]++
	}
	if canon(da) != canon(dbb) {
		cls := "plain"
		if r.patched {
			cls = "after-schema-patch"
		}
		if r.res.Stats["b_crashed"] > 0 {
			cls += "/b-crashed"
		}
		if r.res.Stats["b_crashed_while_handling_a_push"] > 0 {
			cls += "/b-crashed-mid-push"
		}
		var diffs []string
		for id, row := range da {
			if canon(row) != canon(dbb[id]) {
				diffs = append(diffs, fmt.Sprintf("%s: A=%s B=%s", id, canon(row), canon(dbb[id])))
			}
		}
		for id, row := range dbb {
			if da[id] == nil {
				diffs = append(diffs, fmt.Sprintf("%s: A=<absent> B=%s", id, canon(row)))
			}
		}
		if kvs, err := scanPrefix(r.a.ctx, r.a.Store.base, "/db/ps/"); err == nil {
			for _, kv := range kvs {
				r.res.logf("  A peerstore %s = %q", kv.k, short(string(kv.v)))
			}
		}
		r.res.violate(r.prop, "not-delivered", "not-delivered/"+cls, i,
			"%v of simulated time after the last fault, with B reachable and no further writes, B's documents differ from A's: %s",
			time.Since(t0), strings.Join(sortedCopy(diffs), "; "))
		return
	}
	if r.p.cfg("col", 0) == 1 && len(r.excused) == 0 {
		ha, hb := r.colHeads(r.a), r.colHeads(r.b)
		r.res.Stats["collection_level_heads_compared"]++
		if ha != hb {
			cls := "plain"
			if r.res.Stats["b_crashed"] > 0 {
				cls = "b-crashed"
			}
			r.res.violate(r.prop, "not-delivered", "not-delivered/collection-level-commit/"+cls, i,
				"%v of simulated time after the last fault, with B reachable and no further writes, the heads of the collection-level history differ: A=[%s] B=[%s]",
				time.Since(t0), ha, hb)
			return
		}
	}
	r.res.Stats["converged"]++
	if reps, err := r.a.Peer.GetAllReplicators(r.a.reqCtx()); err == nil {
		for _, rp := range reps {
			if rp.Status != 0 {
				r.res.Stats["probe_replicator_inactive_at_end"]++
			}
		}
	}
	kvs, _ := scanPrefix(r.a.ctx, r.a.Store.base, "/db/ps/")
	_ = kvs
}

// colHeads: the heads of the collection-level history of a branchable collection, as the node stores them.
func (r *c15Run) colHeads(n *e2Node) string {
	kvs, err := scanPrefix(n.ctx, n.Store.base, "/db/heads/c/")
	if err != nil {
		return "ERR " + err.Error()
	}
	var cids []string
	for _, kv := range kvs {
		k := string(kv.k)
		cids = append(cids, cidShort(k[strings.LastIndex(k, "/")+1:]))
	}
	sort.Strings(cids)
	return strings.Join(cids, " ")
}

func (r *c15Run) equalAB() bool {
	da, ea := r.dump(r.a, r.patched)
	dbb, eb := r.dump(r.b, r.patched)
	for id := range r.excused {
		delete(da, id)
		delete(dbb, id)
	}
	return ea == "" && eb == "" && canon(da) == canon(dbb)
}
