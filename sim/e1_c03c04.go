package verifsim

import (
	"bytes"
	"context"
	"crypto/sha256"
	"encoding/binary"
	"fmt"
	"sort"
	"strings"

	dshelp "github.com/ipfs/boxo/datastore/dshelp"
	"github.com/ipfs/go-cid"
	ds "github.com/ipfs/go-datastore"
	mh "github.com/multiformats/go-multihash"
	"github.com/sourcenetwork/corekv"

	coreblock "github.com/sourcenetwork/defradb/internal/core/block"
)

// ---- C03: time-travel reads --------------------------------------------------

const userValSel = "name age flag ratio tags points score"

// afterLocalRecord stores what the ordinary query returned right after a local commit.
func (r *e1Run) afterLocalRecord(node, slot int, c *mCommit) {
	if !r.props["C03"] {
		return
	}
	if c.Delete {
		return
	}
	all, err := r.dump(node, false)
	if err != "" {
		return
	}
	row := all[r.docIDs[slot]]
	if row == nil {
		return
	}
	if _, ok := r.afterLocal[c.Idx]; !ok {
		r.afterLocal[c.Idx] = canon(valuesOnly(row))
	}
	r.checkSubscription(node, slot, c)
}

func valuesOnly(row map[string]any) map[string]any {
	out := map[string]any{}
	for _, f := range userFields {
		out[f.Name] = row[f.Name]
	}
	return out
}

// queryAt runs the time-travel read of doc slot at commit c on a node.
func (r *e1Run) queryAt(node, slot int, c *mCommit) (map[string]any, string) {
	q := fmt.Sprintf(`query { User(cid: %q, docID: %q) { %s } }`, c.Cid, r.docIDs[slot], userValSel)
	data, errs := r.nodes[node].GQL(q)
	if len(errs) > 0 {
		return nil, strings.Join(errs, "; ")
	}
	rs := rows(data, "User")
	if len(rs) != 1 {
		return nil, fmt.Sprintf("%d rows", len(rs))
	}
	return rs[0], ""
}

// checkTimeTravel evaluates C03 on one node for every commit of its merged sets.
func (r *e1Run) checkTimeTravel(step, node int) {
	if !r.props["C03"] {
		return
	}
	budget := 40
	for slot := 0; slot < r.p.cfg("docs", 1); slot++ {
		set := r.merged[node][slot]
		var idxs []int
		for c := range set {
			idxs = append(idxs, c)
		}
		sort.Ints(idxs)
		heads := r.maximal(set, nil)
		for _, ci := range idxs {
			if budget <= 0 {
				return
			}
			c := r.commits[ci]
			anc := map[int]bool{}
			r.ancestors(ci, anc)
			e := r.expect(anc)
			if e.Deleted {
				continue // the statement does not say what a read at or after a delete shows
			}
			budget--
			shape := r.shapeClass(anc)
			row, err := r.queryAt(node, slot, c)
			if err != "" {
				r.res.violate("C03", "read-at-commit-failed", "read-at-commit-failed/"+shape, step,
					"node %d doc %d at commit#%d (%s): %s", node, slot, ci, cidShort(c.Cid), err)
				return
			}
			r.res.Stats["timetravel_reads"]++
			if shape != "linear" {
				r.res.Stats["timetravel_reads_branching"]++
			}
			for _, f := range userFields {
				got := canon(row[f.Name])
				if f.Counter {
					want := e.Ctrs[f.Name]
					if got != want && !(want == "null" && (got == "0" || got == "null")) {
						r.res.violate("C03", "counter-at-commit", "counter-at-commit/"+shape, step,
							"node %d doc %d at commit#%d: %s = %s, sum of increments up to the commit = %s", node, slot, ci, f.Name, got, want)
						return
					}
				} else if !e.Regs[f.Name][got] {
					r.res.violate("C03", "register-at-commit", "register-at-commit/"+shape, step,
						"node %d doc %d at commit#%d: %s = %s, causally latest writes up to the commit = %v", node, slot, ci, f.Name, got, sortedKeys(e.Regs[f.Name]))
					return
				}
			}
			// locally written history: equals what the ordinary query returned right after that commit
			if want, ok := r.afterLocal[ci]; ok && c.Origin == node {
				if got := canon(valuesOnly(row)); got != want {
					r.res.violate("C03", "differs-from-query-after-commit", "differs-from-query-after-commit/"+shape, step,
						"node %d doc %d at commit#%d: read at commit %s, ordinary query right after the commit returned %s", node, slot, ci, got, want)
					return
				}
			}
			// at the current single head: equals the current query
			if len(heads) == 1 && heads[0] == ci {
				cur, cerr := r.dump(node, false)
				if cerr == "" && cur[r.docIDs[slot]] != nil {
					if got, want := canon(valuesOnly(row)), canon(valuesOnly(cur[r.docIDs[slot]])); got != want {
						r.res.violate("C03", "head-differs-from-current", "head-differs-from-current/"+shape, step,
							"node %d doc %d at single head commit#%d: %s, current query: %s", node, slot, ci, got, want)
						return
					}
				}
			}
		}
	}
}

// shapeClass: linear history or branching (some commit with two parents / concurrent commits).
func (r *e1Run) shapeClass(set map[int]bool) string {
	for c := range set {
		if len(r.commits[c].Parents) > 1 {
			return "two-parent-commit"
		}
	}
	// linear iff totally ordered
	if len(r.maximal(set, nil)) > 1 {
		return "branching"
	}
	return "linear"
}

// subscription ---------------------------------------------------------------

type subResult struct {
	Data any
	Errs []string
}

func (r *e1Run) openSubscriptions() {
	if !r.props["C03"] {
		return
	}
	for _, nd := range r.nodes {
		nd.openSub("subscription { User { _docID " + userValSel + " } }")
	}
}

func (n *SimNode) openSub(req string) {
	ctx := n.reqCtx()
	res := n.DB.ExecRequest(ctx, req)
	if res.Subscription == nil {
		return
	}
	ch := res.Subscription
	go func() {
		for g := range ch {
			sr := subResult{Data: g.Data}
			for _, e := range g.Errors {
				sr.Errs = append(sr.Errs, e.Error())
			}
			n.mu.Lock()
			n.subResults = append(n.subResults, sr)
			n.mu.Unlock()
		}
	}()
}

func (n *SimNode) takeSubResults() []subResult {
	n.mu.Lock()
	defer n.mu.Unlock()
	s := n.subResults
	n.subResults = nil
	return s
}

// checkSubscription: the result triggered by local commit c reports the state at c.
func (r *e1Run) checkSubscription(node, slot int, c *mCommit) {
	results := r.nodes[node].takeSubResults()
	for _, sr := range results {
		r.res.Stats["subscription_results"]++
		if len(sr.Errs) > 0 {
			r.res.violate("C03", "subscription-error", "subscription-error/"+r.shapeClass(r.merged[node][slot]), r.step,
				"node %d subscription result for commit#%d carries errors: %v", node, c.Idx, sr.Errs)
			return
		}
		var rs []map[string]any
		switch v := sr.Data.(type) {
		case []map[string]any:
			rs = v
		case map[string]any:
			rs = rows(v, "User")
		}
		for _, row := range rs {
			if row["_docID"] != r.docIDs[slot] {
				continue
			}
			got := canon(valuesOnly(row))
			if want := r.afterLocal[c.Idx]; got != want {
				r.res.violate("C03", "subscription-differs", "subscription-differs/"+r.shapeClass(r.merged[node][slot]), r.step,
					"node %d subscription result for commit#%d: %s, ordinary query right after the commit: %s", node, c.Idx, got, want)
				return
			}
		}
	}
}

// ---- C04: Merkle-DAG invariants ------------------------------------------------

func (r *e1Run) installMonitors(node int, st *SimStore) {
	st.OnWrite = func(key, val []byte) {
		if bytes.HasPrefix(key, []byte("/db/blocks/")) {
			if r.props["C04"] {
				if !blockKeyMatches(key, val) {
					r.res.violate("C04", "block-not-under-own-hash", "online", r.step, "node %d wrote a block under %s that is not the hash of its bytes", node, key)
				}
			}
		}
		r.scanSecret(node, key, val)
	}
}

func blockKeyMatches(key, val []byte) bool {
	k := ds.NewKey(strings.TrimPrefix(string(key), "/db/blocks"))
	m, err := dshelp.DsKeyToMultihash(k)
	if err != nil {
		return false
	}
	dec, err := mh.Decode(m)
	if err != nil || dec.Code != mh.SHA2_256 {
		return false
	}
	sum := sha256.Sum256(val)
	return bytes.Equal(sum[:], dec.Digest)
}

type rawKV struct{ k, v []byte }

func scanPrefix(ctx context.Context, st corekv.Store, prefix string) ([]rawKV, error) {
	it, err := st.Iterator(ctx, corekv.IterOptions{Prefix: []byte(prefix)})
	if err != nil {
		return nil, err
	}
	defer it.Close()
	var out []rawKV
	for {
		ok, err := it.Next()
		if err != nil {
			return nil, err
		}
		if !ok {
			break
		}
		v, err := it.Value()
		if err != nil {
			return nil, err
		}
		out = append(out, rawKV{clone(it.Key()), clone(v)})
	}
	return out, nil
}

type parsedBlock struct {
	c   cid.Cid
	blk *coreblock.Block
}

// checkDAG evaluates the C04 invariants on one node from its raw store.
func (r *e1Run) checkDAG(step, node int, why string) {
	if r.props["C03"] {
		r.checkTimeTravel(step, node)
	}
	if !r.props["C04"] {
		return
	}
	if !r.props["C03"] {
		// reads at a commit are reads: they must leave the graph and its frontier as they were
		r.readAtCommits(step, node)
	}
	nd := r.nodes[node]
	base := nd.Store.base // raw scan below the interception layer (no sites recorded)
	blocksKV, err := scanPrefix(nd.ctx, base, "/db/blocks/")
	if err != nil {
		r.res.HarnessErr = "scan blocks: " + err.Error()
		return
	}
	// (1) every stored block is filed under the hash of its bytes
	byHash := map[string][]byte{}
	for _, kv := range blocksKV {
		if !blockKeyMatches(kv.k, kv.v) {
			r.res.violate("C04", "block-not-under-own-hash", "scan", step, "node %d: entry %s does not hash to its key", node, kv.k)
			return
		}
		sum := sha256.Sum256(kv.v)
		byHash[string(sum[:])] = kv.v
	}
	load := func(c cid.Cid) (*coreblock.Block, bool) {
		dec, err := mh.Decode(c.Hash())
		if err != nil {
			return nil, false
		}
		raw, ok := byHash[string(dec.Digest)]
		if !ok {
			return nil, false
		}
		b, err := coreblock.GetFromBytes(raw)
		if err != nil {
			return nil, true // present but not a DAG block (signature)
		}
		return b, true
	}
	headsKV, err := scanPrefix(nd.ctx, base, "/db/heads/")
	if err != nil {
		r.res.HarnessErr = "scan heads: " + err.Error()
		return
	}
	// group raw head entries by (docID, fieldID)
	rawHeads := map[string]map[string]uint64{}
	for _, kv := range headsKV {
		parts := strings.Split(string(kv.k), "/")
		// /db/heads/d/<docID>/<fieldID>/<cid>
		if len(parts) != 7 || parts[3] != "d" {
			continue
		}
		h, n := binary.Uvarint(kv.v)
		if n <= 0 {
			r.res.violate("C04", "head-height-undecodable", "", step, "node %d head %s", node, kv.k)
			return
		}
		g := parts[4] + "/" + parts[5]
		if rawHeads[g] == nil {
			rawHeads[g] = map[string]uint64{}
		}
		rawHeads[g][parts[6]] = h
	}
	for slot := 0; slot < r.p.cfg("docs", 1); slot++ {
		set := r.merged[node][slot]
		if len(set) == 0 {
			continue
		}
		id := r.docIDs[slot]
		cls := r.historyClass(node, slot)
		// (4) composite heads == maximal merged commits
		var want []string
		for _, h := range r.maximal(set, nil) {
			want = append(want, r.commits[h].Cid)
		}
		var got []string
		for c := range rawHeads[id+"/C"] {
			got = append(got, c)
		}
		if joinSorted(got) != joinSorted(want) {
			r.res.violate("C04", "heads-not-frontier", "heads-not-frontier/composite/"+cls, step,
				"node %d doc %d (%s): headstore has %v, merged commits no merged commit names as parent: %v", node, slot, why, shortAll(got), shortAll(want))
			return
		}
		// cross-check with latestCommits
		data, errs := nd.GQL(fmt.Sprintf(`query { latestCommits(docID: %q) { cid height } }`, id))
		if len(errs) > 0 {
			r.res.violate("C04", "latestCommits-failed", "", step, "node %d: %v", node, errs)
			return
		}
		var lc []string
		for _, row := range rows(data, "latestCommits") {
			lc = append(lc, fmt.Sprint(row["cid"]))
		}
		if joinSorted(lc) != joinSorted(want) {
			r.res.violate("C04", "heads-not-frontier", "heads-not-frontier/latestCommits/"+cls, step,
				"node %d doc %d: latestCommits %v, expected %v", node, slot, shortAll(lc), shortAll(want))
			return
		}
		// (2)(3) closure and heights over everything reachable from the heads; collect merged field blocks
		heights := map[string]uint64{}
		fieldBlocks := map[string]map[string]*coreblock.Block{} // field -> cid -> block
		var walk func(c cid.Cid, from string) bool
		seen := map[string]bool{}
		walk = func(c cid.Cid, from string) bool {
			if seen[c.KeyString()] {
				return true
			}
			seen[c.KeyString()] = true
			b, ok := load(c)
			if !ok {
				r.res.violate("C04", "dangling-link", "dangling-link/"+cls, step, "node %d doc %d: %s links to %s which is not stored (%s)", node, slot, from, cidShort(c.String()), why)
				return false
			}
			if b == nil {
				return true
			}
			var maxp uint64
			for _, h := range b.Heads {
				if !walk(h.Cid, cidShort(c.String())) {
					return false
				}
				if p := heights[h.Cid.KeyString()]; p > maxp {
					maxp = p
				}
			}
			heights[c.KeyString()] = b.Delta.GetPriority()
			if b.Delta.GetPriority() != maxp+1 {
				r.res.violate("C04", "height-not-max-parent-plus-one", "", step, "node %d doc %d: block %s has height %d, greatest parent height %d", node, slot, cidShort(c.String()), b.Delta.GetPriority(), maxp)
				return false
			}
			for _, l := range b.Links {
				if !walk(l.Link.Cid, cidShort(c.String())) {
					return false
				}
			}
			if b.Signature != nil {
				if _, ok := load(b.Signature.Cid); !ok {
					r.res.violate("C04", "dangling-link", "signature/"+cls, step, "node %d: signature block of %s not stored", node, cidShort(c.String()))
					return false
				}
			}
			if b.Delta.IsField() {
				fn := b.Delta.GetFieldName()
				if fieldBlocks[fn] == nil {
					fieldBlocks[fn] = map[string]*coreblock.Block{}
				}
				fieldBlocks[fn][c.String()] = b
			}
			return true
		}
		for _, h := range r.maximal(set, nil) {
			if !walk(r.commits[h].C, "head") {
				return
			}
		}
		// every merged composite commit must be among the reachable blocks with the model's height
		for c := range set {
			mc := r.commits[c]
			if hgt, ok := heights[mc.C.KeyString()]; !ok || int(hgt) != r.height(c) {
				r.res.violate("C04", "height-not-max-parent-plus-one", "model", step, "node %d doc %d: commit#%d height %d (reachable=%v), model height %d", node, slot, c, hgt, ok, r.height(c))
				return
			}
		}
		// field heads: merged field blocks no merged field block of that field names as parent
		fieldHeadsGot := map[string][]string{}
		for g, hs := range rawHeads {
			if !strings.HasPrefix(g, id+"/") || g == id+"/C" {
				continue
			}
			for c, hgt := range hs {
				cc, err := cid.Decode(c)
				if err != nil {
					continue
				}
				b, ok := load(cc)
				if !ok || b == nil {
					r.res.violate("C04", "dangling-link", "field-head/"+cls, step, "node %d doc %d: field head %s not stored", node, slot, cidShort(c))
					return
				}
				if b.Delta.GetPriority() != hgt {
					r.res.violate("C04", "head-height-mismatch", "", step, "node %d doc %d: field head %s recorded height %d, block height %d", node, slot, cidShort(c), hgt, b.Delta.GetPriority())
					return
				}
				fn := b.Delta.GetFieldName()
				fieldHeadsGot[fn] = append(fieldHeadsGot[fn], c)
			}
		}
		for _, fn := range sortedKeys(fieldBlocks) {
			named := map[string]bool{}
			for _, b := range fieldBlocks[fn] {
				for _, h := range b.Heads {
					named[h.Cid.String()] = true
				}
			}
			var wantF []string
			for c := range fieldBlocks[fn] {
				if !named[c] {
					wantF = append(wantF, c)
				}
			}
			if joinSorted(fieldHeadsGot[fn]) != joinSorted(wantF) {
				r.res.violate("C04", "heads-not-frontier", "heads-not-frontier/field/"+cls, step,
					"node %d doc %d field %s (%s): headstore has %v, frontier of merged field commits %v", node, slot, fn, why, shortAll(fieldHeadsGot[fn]), shortAll(wantF))
				return
			}
			// ... and that is what the query reports as latest for the field
			if fieldByName(fn) != nil || strings.HasPrefix(fn, "w") {
				data, errs := r.nodes[node].GQL(fmt.Sprintf(`query { latestCommits(docID: %q, fieldName: %q) { cid } }`, id, fn))
				if len(errs) == 0 {
					var got []string
					for _, row := range rows(data, "latestCommits") {
						got = append(got, fmt.Sprint(row["cid"]))
					}
					if joinSorted(got) != joinSorted(wantF) {
						r.res.violate("C04", "heads-not-frontier", "heads-not-frontier/latestCommits-field/"+cls, step,
							"node %d doc %d field %s (%s): latestCommits reports %v, frontier of merged field commits %v", node, slot, fn, why, shortAll(got), shortAll(wantF))
						return
					}
				}
			}
		}
	}
	r.res.Stats["dag_scans"]++
}

func shortAll(xs []string) []string {
	out := make([]string, len(xs))
	for i, x := range xs {
		out[i] = cidShort(x)
	}
	sort.Strings(out)
	return out
}

// readAtCommits issues a few time-travel reads on the node (results are C03's matter, not looked at here).
func (r *e1Run) readAtCommits(step, node int) {
	rr := newRng(r.p.Seed, uint64(9100+step))
	for slot := 0; slot < r.p.cfg("docs", 1); slot++ {
		set := r.merged[node][slot]
		var idxs []int
		for c := range set {
			idxs = append(idxs, c)
		}
		if len(idxs) == 0 {
			continue
		}
		sort.Ints(idxs)
		for k := 0; k < 2; k++ {
			ci := idxs[rr.IntN(len(idxs))]
			anc := map[int]bool{}
			r.ancestors(ci, anc)
			if r.expect(anc).Deleted {
				continue
			}
			if _, err := r.queryAt(node, slot, r.commits[ci]); err == "" {
				r.res.Stats["reads_at_commit_before_dag_check"]++
			}
		}
	}
}
