package verifsim

import (
	"context"
	"fmt"
	"math"
	"sort"
	"strings"
	"testing/synctest"

	"github.com/sourcenetwork/defradb/client"
	"github.com/sourcenetwork/defradb/event"
)

// C09 — relations read the same from both sides.

const c09SDL = `type User {
  name: String
  age: Int
  books: [Book]
  articles: [Article]
}
type Article {
  title: String
  score: Int
  writer: User
}
type Book {
  title: String
  rating: Float
  author: User
  library: Library
}
type Library {
  city: String
  books: [Book]
}
type Person {
  name: String
  passport: Passport @primary
}
type Passport {
  number: String
  owner: Person
}
type Husband {
  name: String
  spouse: Wife @primary
}
type Wife {
  name: String
  spouse: Husband
}
type Node {
  label: String
  parent: Node @primary @relation(name: "tree")
  child: Node @relation(name: "tree")
}
`

func genC09(seed int64, tier string) *Plan {
	r := newRng(seed, 9)
	p := &Plan{Prop: "C09", Engine: "E5", Seed: seed, Cfg: map[string]int{}}
	p.Cfg["ix"] = r.IntN(32) // bit0 Book.author, bit1 Book.rating, bit2 User.age, bit3 Person.passport, bit4 Article.score
	n := 8 + r.IntN(32)
	if tier == "quick" {
		n = 8 + r.IntN(20)
	}
	for i := 0; i < n; i++ {
		x := r.IntN(100)
		switch {
		case x < 14:
			p.Steps = append(p.Steps, Step{K: "user", A: r.IntN(64)})
		case x < 34:
			p.Steps = append(p.Steps, Step{K: "book", A: r.IntN(64), B: r.IntN(9), C: r.IntN(4), D: r.IntN(64)})
		case x < 46:
			p.Steps = append(p.Steps, Step{K: "relink", A: r.IntN(64), B: r.IntN(64), C: r.IntN(4)})
		case x < 54:
			p.Steps = append(p.Steps, Step{K: "delete", A: r.IntN(3), B: r.IntN(64)})
		case x < 58:
			p.Steps = append(p.Steps, Step{K: "library", A: r.IntN(64)})
		case x < 62:
			p.Steps = append(p.Steps, Step{K: "article", A: r.IntN(64), B: r.IntN(9), C: r.IntN(4)})
		case x < 72:
			p.Steps = append(p.Steps, Step{K: "one", A: r.IntN(4), B: r.IntN(64), C: r.IntN(64)})
		case x < 80:
			p.Steps = append(p.Steps, Step{K: "node", A: r.IntN(3), B: r.IntN(64), C: r.IntN(64)})
		case x < 86:
			p.Steps = append(p.Steps, Step{K: "remote", A: r.IntN(3), B: r.IntN(64), C: r.IntN(9)})
		case x < 91:
			p.Steps = append(p.Steps, Step{K: "ixtoggle", A: r.IntN(5)})
		case x < 94:
			p.Steps = append(p.Steps, Step{K: "restart"})
		default:
			p.Steps = append(p.Steps, Step{K: "txn", A: r.IntN(64), B: r.IntN(64), C: r.IntN(2)})
		}
	}
	// a second one-to-one pair whose two sides use the SAME field name (own stream of choices)
	rp := newRng(seed, 91)
	var steps []Step
	for _, st := range p.Steps {
		steps = append(steps, st)
		if chance(rp, 18) {
			steps = append(steps, Step{K: "pair", A: rp.IntN(4), B: rp.IntN(64), C: rp.IntN(64)})
		}
	}
	p.Steps = steps
	return p
}

type c09Book struct {
	author  string
	library string
	rating  float64
}

type c09Article struct {
	writer string
	score  int
}

type c09Run struct {
	articles map[string]c09Article
	p      *Plan
	res    *Result
	ctx    context.Context
	n, rm  *SimNode
	colIDs map[string]string
	// model (live documents only)
	users     map[string]int // id -> age
	books     map[string]c09Book
	libs      map[string]bool
	husbands  map[string]string // husband -> wife id ("" none)
	wives     map[string]bool
	persons   map[string]string // person -> passport id ("" none)
	passports map[string]bool
	nodes     map[string]string // node -> parent id
	ix        map[int]bool
	step      int
	shape     map[string]bool
	seq       int
}

func runC09(p *Plan, res *Result) {
	ctx, cancel := context.WithCancel(context.Background())
	defer cancel()
	installRand(p.Seed)
	r := &c09Run{p: p, res: res, ctx: ctx, colIDs: map[string]string{}, users: map[string]int{}, articles: map[string]c09Article{}, books: map[string]c09Book{}, libs: map[string]bool{},
		husbands: map[string]string{}, wives: map[string]bool{},
		persons: map[string]string{}, passports: map[string]bool{}, nodes: map[string]string{}, ix: map[int]bool{}, shape: map[string]bool{}}
	for _, name := range []string{"n", "rm"} {
		setRandStep("start|" + name)
		nd, err := startNode(ctx, name, NewSimStore(), NodeOpts{})
		if err != nil {
			res.HarnessErr = "start: " + err.Error()
			return
		}
		cols, err := nd.DB.AddSchema(nd.reqCtx(), c09SDL)
		if err != nil {
			res.HarnessErr = "schema: " + err.Error()
			return
		}
		for _, c := range cols {
			r.colIDs[c.Name] = c.CollectionID
		}
		if name == "n" {
			r.n = nd
		} else {
			r.rm = nd
		}
	}
	defer func() {
		r.n.Close()
		r.rm.Close()
	}()
	for b := 0; b < len(c09Indexes); b++ {
		if p.cfg("ix", 0)>>uint(b)&1 == 1 {
			r.toggleIndex(b)
		}
	}
	for i, s := range p.Steps {
		if len(res.Viols) > 0 || res.HarnessErr != "" {
			break
		}
		r.step = i
		setRandStep(fmt.Sprintf("step|%d", i))
		r.exec(i, s)
		synctest.Wait()
		r.n.TakeUpdates()
		if len(res.Viols) == 0 && res.HarnessErr == "" {
			r.check(i, s.K)
		}
	}
	res.ShapeSet = sortedCopy(keysOf(r.shape))
	res.Shape = strings.Join(res.ShapeSet, ";")
	res.Nontrivial = len(r.shape) > 1
}

var c09Indexes = []struct{ col, field, name string }{
	{"Book", "author", "ix_author"}, {"Book", "rating", "ix_rating"}, {"User", "age", "ix_age"}, {"Person", "passport", "ix_passport"},
	{"Article", "score", "ix_score"},
}

func (r *c09Run) toggleIndex(b int) {
	d := c09Indexes[b]
	col, err := r.n.DB.GetCollectionByName(r.n.reqCtx(), d.col)
	if err != nil {
		r.res.HarnessErr = err.Error()
		return
	}
	if r.ix[b] {
		if err := col.DropIndex(r.n.reqCtx(), d.name); err != nil {
			r.res.violate("C09", "drop-index-failed", d.name, r.step, "%v", err)
			return
		}
		delete(r.ix, b)
		return
	}
	if _, err := col.CreateIndex(r.n.reqCtx(), client.IndexCreateRequest{Name: d.name, Fields: []client.IndexedFieldDescription{{Name: d.field}}}); err != nil {
		r.res.violate("C09", "create-index-failed", d.name, r.step, "%v", err)
		return
	}
	r.ix[b] = true
}

func pickKey[V any](m map[string]V, i int) string {
	ks := sortedKeys(m)
	if len(ks) == 0 {
		return ""
	}
	return ks[mod(i, len(ks))]
}

func lit(id string) string {
	if id == "" {
		return "null"
	}
	return fmt.Sprintf("%q", id)
}

func (r *c09Run) gqlID(q, key string) (string, []string) {
	data, errs := r.n.GQL(q)
	if len(errs) > 0 {
		return "", errs
	}
	rs := rows(data, key)
	if len(rs) == 0 {
		return "", nil
	}
	return fmt.Sprint(rs[0]["_docID"]), nil
}

func (r *c09Run) exec(i int, s Step) {
	r.seq++
	switch s.K {
	case "user":
		age := 20 + mod(s.A, 9)
		id, errs := r.gqlID(fmt.Sprintf(`mutation { create_User(input: {name: "u%d", age: %d}) { _docID } }`, r.seq, age), "create_User")
		if len(errs) > 0 {
			r.res.violate("C09", "write-failed", "create-user", i, "%v", errs)
			return
		}
		r.users[id] = age
	case "library":
		id, errs := r.gqlID(fmt.Sprintf(`mutation { create_Library(input: {city: "c%d"}) { _docID } }`, r.seq), "create_Library")
		if len(errs) > 0 {
			r.res.violate("C09", "write-failed", "create-library", i, "%v", errs)
			return
		}
		r.libs[id] = true
	case "book":
		author, lib := "", ""
		if s.C&1 == 1 {
			author = pickKey(r.users, s.A)
		}
		if s.C&2 == 2 {
			lib = pickKey(r.libs, s.D)
		}
		rating := float64(s.B) + 0.5
		ratingLit := fmt.Sprint(rating)
		if s.B == 8 {
			// a book without rating (null): NaN in the model, no comparison holds for it and aggregates skip it
			rating, ratingLit = math.NaN(), "null"
		}
		id, errs := r.gqlID(fmt.Sprintf(`mutation { create_Book(input: {title: "b%d", rating: %s, author: %s, library: %s}) { _docID } }`, r.seq, ratingLit, lit(author), lit(lib)), "create_Book")
		if len(errs) > 0 {
			r.res.violate("C09", "write-failed", "create-book", i, "%v", errs)
			return
		}
		r.books[id] = c09Book{author: author, library: lib, rating: rating}
	case "article":
		writer := ""
		if s.C != 0 {
			writer = pickKey(r.users, s.A)
		}
		id, errs := r.gqlID(fmt.Sprintf(`mutation { create_Article(input: {title: "a%d", score: %d, writer: %s}) { _docID } }`, r.seq, s.B, lit(writer)), "create_Article")
		if len(errs) > 0 {
			r.res.violate("C09", "write-failed", "create-article", i, "%v", errs)
			return
		}
		r.articles[id] = c09Article{writer: writer, score: s.B}
	case "relink":
		b := pickKey(r.books, s.A)
		if b == "" {
			return
		}
		bk := r.books[b]
		switch s.C {
		case 0:
			bk.author = ""
		case 1, 2:
			bk.author = pickKey(r.users, s.B)
		default:
			bk.library = pickKey(r.libs, s.B)
		}
		if _, errs := r.n.GQL(fmt.Sprintf(`mutation { update_Book(docID: %q, input: {author: %s, library: %s}) { _docID } }`, b, lit(bk.author), lit(bk.library))); len(errs) > 0 {
			r.res.violate("C09", "write-failed", "relink", i, "%v", errs)
			return
		}
		r.books[b] = bk
	case "delete":
		switch s.A {
		case 0:
			if id := pickKey(r.users, s.B); id != "" {
				if _, errs := r.n.GQL(fmt.Sprintf(`mutation { delete_User(docID: %q) { _docID } }`, id)); len(errs) > 0 {
					r.res.violate("C09", "write-failed", "delete-user", i, "%v", errs)
					return
				}
				delete(r.users, id)
			}
		case 1:
			if id := pickKey(r.books, s.B); id != "" {
				if _, errs := r.n.GQL(fmt.Sprintf(`mutation { delete_Book(docID: %q) { _docID } }`, id)); len(errs) > 0 {
					r.res.violate("C09", "write-failed", "delete-book", i, "%v", errs)
					return
				}
				delete(r.books, id)
			}
		default:
			if id := pickKey(r.passports, s.B); id != "" {
				if _, errs := r.n.GQL(fmt.Sprintf(`mutation { delete_Passport(docID: %q) { _docID } }`, id)); len(errs) > 0 {
					r.res.violate("C09", "write-failed", "delete-passport", i, "%v", errs)
					return
				}
				delete(r.passports, id)
			}
		}
	case "one":
		// one-to-one: Person.passport is the primary side
		switch s.A {
		case 0:
			id, errs := r.gqlID(fmt.Sprintf(`mutation { create_Passport(input: {number: "p%d"}) { _docID } }`, r.seq), "create_Passport")
			if len(errs) > 0 {
				r.res.violate("C09", "write-failed", "create-passport", i, "%v", errs)
				return
			}
			r.passports[id] = true
		default:
			target := ""
			if s.A != 1 {
				target = pickKey(r.passports, s.B)
			}
			taken := false
			for _, pp := range r.persons {
				if target != "" && pp == target {
					taken = true
				}
			}
			var q, key string
			person := ""
			if s.A == 3 && len(r.persons) > 0 {
				person = pickKey(r.persons, s.C)
				if r.persons[person] == target {
					taken = false
				}
				q, key = fmt.Sprintf(`mutation { update_Person(docID: %q, input: {passport: %s}) { _docID } }`, person, lit(target)), "update_Person"
			} else {
				q, key = fmt.Sprintf(`mutation { create_Person(input: {name: "h%d", passport: %s}) { _docID } }`, r.seq, lit(target)), "create_Person"
			}
			id, errs := r.gqlID(q, key)
			if len(errs) > 0 {
				if taken {
					r.res.Stats["one_to_one_rejects"]++
					return // correctly refused: the link is already held by another document
				}
				r.res.violate("C09", "write-failed", "one-to-one/"+key, i, "%s: %v", q, errs)
				return
			}
			if taken {
				r.res.violate("C09", "one-to-one-held-twice", key, i, "%s was accepted although passport %s is already linked from another live person", q, target)
				return
			}
			if person == "" {
				person = id
			}
			r.persons[person] = target
		}
	case "pair":
		// one-to-one, Husband.spouse is the primary side, Wife.spouse the secondary: same field name on both sides
		if s.A == 0 {
			id, errs := r.gqlID(fmt.Sprintf(`mutation { create_Wife(input: {name: "w%d"}) { _docID } }`, r.seq), "create_Wife")
			if len(errs) > 0 {
				r.res.violate("C09", "write-failed", "create-wife", i, "%v", errs)
				return
			}
			r.wives[id] = true
			return
		}
		target := ""
		if s.A != 1 {
			target = pickKey(r.wives, s.B)
		}
		taken := false
		for _, w := range r.husbands {
			if target != "" && w == target {
				taken = true
			}
		}
		var q, key string
		husband := ""
		if s.A == 3 && len(r.husbands) > 0 {
			husband = pickKey(r.husbands, s.C)
			if r.husbands[husband] == target {
				taken = false
			}
			q, key = fmt.Sprintf(`mutation { update_Husband(docID: %q, input: {spouse: %s}) { _docID } }`, husband, lit(target)), "update_Husband"
		} else {
			q, key = fmt.Sprintf(`mutation { create_Husband(input: {name: "m%d", spouse: %s}) { _docID } }`, r.seq, lit(target)), "create_Husband"
		}
		id, errs := r.gqlID(q, key)
		if len(errs) > 0 {
			if taken {
				r.res.Stats["one_to_one_rejects"]++
				return
			}
			r.res.violate("C09", "write-failed", "one-to-one/"+key, i, "%s: %v", q, errs)
			return
		}
		if taken {
			r.res.violate("C09", "one-to-one-held-twice", key, i, "%s was accepted although wife %s is already linked from another husband", q, target)
			return
		}
		if husband == "" {
			husband = id
		}
		r.husbands[husband] = target
	case "node":
		parent := ""
		if s.A != 0 {
			parent = pickKey(r.nodes, s.B)
		}
		taken := false
		for _, pp := range r.nodes {
			if parent != "" && pp == parent {
				taken = true
			}
		}
		q := fmt.Sprintf(`mutation { create_Node(input: {label: "t%d", parent: %s}) { _docID } }`, r.seq, lit(parent))
		id, errs := r.gqlID(q, "create_Node")
		if len(errs) > 0 {
			if taken {
				r.res.Stats["one_to_one_rejects"]++
				return
			}
			r.res.violate("C09", "write-failed", "create-node", i, "%s: %v", q, errs)
			return
		}
		if taken {
			r.res.violate("C09", "one-to-one-held-twice", "create_Node", i, "%s was accepted although node %s already is the parent of another live node", q, parent)
			return
		}
		r.nodes[id] = parent
	case "remote":
		r.remote(i, s)
	case "ixtoggle":
		r.toggleIndex(mod(s.A, len(c09Indexes)))
	case "restart":
		st := r.n.Store
		r.n.Close()
		setRandStep("restart")
		nd, err := startNode(r.ctx, "n", st.Reopen(-1), NodeOpts{})
		if err != nil {
			r.res.violate("C09", "restart-failed", "", i, "%v", err)
			return
		}
		r.n = nd
	case "txn":
		// a book created and linked inside an explicit transaction
		txn, err := r.n.DB.NewTxn(r.n.reqCtx(), false)
		if err != nil {
			r.res.HarnessErr = err.Error()
			return
		}
		author := pickKey(r.users, s.A)
		res := txn.ExecRequest(r.n.reqCtx(), fmt.Sprintf(`mutation { create_Book(input: {title: "x%d", rating: 1.5, author: %s}) { _docID } }`, r.seq, lit(author)))
		if len(res.GQL.Errors) > 0 {
			txn.Discard(r.n.reqCtx())
			r.res.violate("C09", "write-failed", "txn-create-book", i, "%v", res.GQL.Errors)
			return
		}
		id := fmt.Sprint(rows(res.GQL.Data.(map[string]any), "create_Book")[0]["_docID"])
		if s.C == 0 {
			txn.Discard(r.n.reqCtx())
			return
		}
		if err := txn.Commit(r.n.reqCtx()); err != nil {
			r.res.violate("C09", "write-failed", "txn-commit", i, "%v", err)
			return
		}
		r.books[id] = c09Book{author: author, rating: 1.5}
	}
}

// remote: another node creates a user and books for it; the commits are merged here.
func (r *c09Run) remote(i int, s Step) {
	rm := r.rm
	var ups []event.Update
	run := func(q string) (string, bool) {
		data, errs := rm.GQL(q)
		if len(errs) > 0 {
			r.res.HarnessErr = fmt.Sprintf("remote %s: %v", q, errs)
			return "", false
		}
		synctest.Wait()
		ups = append(ups, rm.TakeUpdates()...)
		for _, v := range data {
			if rs, ok := v.([]map[string]any); ok && len(rs) > 0 {
				return fmt.Sprint(rs[0]["_docID"]), true
			}
		}
		return "", true
	}
	uid, ok := run(fmt.Sprintf(`mutation { create_User(input: {name: "ru%d", age: %d}) { _docID } }`, r.seq, 40+mod(s.B, 5)))
	if !ok {
		return
	}
	bid, ok := run(fmt.Sprintf(`mutation { create_Book(input: {title: "rb%d", rating: %d.5, author: %q}) { _docID } }`, r.seq, s.C, uid))
	if !ok {
		return
	}
	e1 := &e1Run{}
	// deliver book before user or user before book
	order := ups
	if s.A == 1 {
		order = []event.Update{ups[1], ups[0]}
	}
	for _, up := range order {
		colID := r.colIDs["User"]
		if up.DocID == bid {
			colID = r.colIDs["Book"]
		}
		if err := e1.copyBlocks(rm, r.n, up.Cid, map[string]bool{}); err != nil {
			r.res.HarnessErr = "copy: " + err.Error()
			return
		}
		if err := safeMerge(r.n, event.Merge{DocID: up.DocID, Cid: up.Cid, CollectionID: colID}); err != nil {
			r.res.violate("C09", "merge-failed", errClass(err), i, "merge of a remote commit failed: %v", err)
			return
		}
	}
	r.users[uid] = 40 + mod(s.B, 5)
	r.books[bid] = c09Book{author: uid, rating: float64(s.C) + 0.5}
	r.res.Stats["remote_merges"] += 2
}

// ---- oracle --------------------------------------------------------------------------

func (r *c09Run) q(i int, q string) (map[string]any, bool) {
	data, errs := r.n.GQL(q)
	if len(errs) > 0 {
		r.res.violate("C09", "query-failed", queryClass(q), i, "%s: %v (indexes %v)", q, errs, r.ixNames())
		return nil, false
	}
	r.res.Stats["queries"]++
	return data, true
}

func queryClass(q string) string {
	q = strings.TrimPrefix(q, "query { ")
	if i := strings.IndexAny(q, " ({"); i > 0 {
		q = q[:i]
	}
	return q
}

func (r *c09Run) ixNames() []string {
	var out []string
	for b := range r.ix {
		out = append(out, c09Indexes[b].name)
	}
	sort.Strings(out)
	return out
}

func idsOf(v any) []string {
	var out []string
	switch t := v.(type) {
	case []map[string]any:
		for _, m := range t {
			out = append(out, fmt.Sprint(m["_docID"]))
		}
	case []any:
		for _, x := range t {
			if m, ok := x.(map[string]any); ok {
				out = append(out, fmt.Sprint(m["_docID"]))
			}
		}
	}
	sort.Strings(out)
	return nonNil(out)
}

func (r *c09Run) check(i int, after string) {
	cls := after + "/" + strings.Join(r.ixNames(), "+")
	// --- one-to-many from the parent side
	data, ok := r.q(i, `query { User { _docID books { _docID } _count(books: {}) } }`)
	if !ok {
		return
	}
	gotUsers := map[string][]string{}
	for _, row := range rows(data, "User") {
		id := fmt.Sprint(row["_docID"])
		gotUsers[id] = idsOf(row["books"])
		if cnt, _ := row["_count"].(int64); int(cnt) != len(gotUsers[id]) && row["_count"] != nil {
			if c2, ok := row["_count"].(int); !ok || c2 != len(gotUsers[id]) {
				r.res.violate("C09", "aggregate-disagrees", "count/"+cls, i, "user %s: _count(books)=%v but books lists %d", id, row["_count"], len(gotUsers[id]))
				return
			}
		}
	}
	wantUsers := map[string][]string{}
	for u := range r.users {
		wantUsers[u] = []string{}
	}
	for b, bk := range r.books {
		if _, live := r.users[bk.author]; live {
			wantUsers[bk.author] = append(wantUsers[bk.author], b)
		}
	}
	for u := range wantUsers {
		sort.Strings(wantUsers[u])
	}
	if canon(gotUsers) != canon(normEmpty(wantUsers)) {
		r.res.violate("C09", "parent-side-differs-from-links", "one-to-many/"+cls, i, "User{books}: %s, links held by the books: %s", short(canon(gotUsers)), short(canon(wantUsers)))
		return
	}
	// --- from the child side
	data, ok = r.q(i, `query { Book { _docID author_id author { _docID } library { _docID } } }`)
	if !ok {
		return
	}
	for _, row := range rows(data, "Book") {
		id := fmt.Sprint(row["_docID"])
		bk, known := r.books[id]
		if !known {
			r.res.violate("C09", "phantom-document", "book/"+cls, i, "Book listing contains %s", id)
			return
		}
		gotA := ""
		if m, ok := row["author"].(map[string]any); ok && m != nil {
			gotA = fmt.Sprint(m["_docID"])
		}
		wantA := ""
		if _, live := r.users[bk.author]; live {
			wantA = bk.author
		}
		if gotA != wantA {
			r.res.violate("C09", "child-side-differs-from-link", "one-to-many/"+cls, i, "Book %s: author{_docID}=%q, its relation field points to %q (live=%v)", id, gotA, bk.author, wantA != "")
			return
		}
		gotL := ""
		if m, ok := row["library"].(map[string]any); ok && m != nil {
			gotL = fmt.Sprint(m["_docID"])
		}
		if gotL != bk.library {
			r.res.violate("C09", "child-side-differs-from-link", "library/"+cls, i, "Book %s: library{_docID}=%q, relation field %q", id, gotL, bk.library)
			return
		}
	}
	if len(rows(data, "Book")) != len(r.books) {
		r.res.violate("C09", "document-missing", "book/"+cls, i, "Book listing has %d rows, %d live books", len(rows(data, "Book")), len(r.books))
		return
	}
	// --- by foreign key (may be index backed), per live user
	for _, u := range sortedKeys(r.users) {
		data, ok = r.q(i, fmt.Sprintf(`query { Book(filter: {author_id: {_eq: %q}}) { _docID } }`, u))
		if !ok {
			return
		}
		if got := idsOf(data["Book"]); canon(got) != canon(nonNil(wantUsers[u])) {
			r.res.violate("C09", "foreign-key-filter-differs", "one-to-many/"+cls, i, "Book(filter author_id=%s) = %v, User{books} side says %v", u, got, wantUsers[u])
			return
		}
	}
	// --- filter through the relation, both directions
	for _, x := range []float64{2, 5} {
		data, ok = r.q(i, fmt.Sprintf(`query { User(filter: {books: {rating: {_gt: %v}}}) { _docID } }`, x))
		if !ok {
			return
		}
		fromParent := idsOf(data["User"])
		want := map[string]bool{}
		for _, bk := range r.books {
			if _, live := r.users[bk.author]; live && bk.rating > x {
				want[bk.author] = true
			}
		}
		if canon(fromParent) != canon(nonNil(sortedKeys(want))) {
			r.res.violate("C09", "relation-filter-differs", "parent-by-child-field/"+cls, i, "User(filter books.rating>%v) = %v, from the books' side %v", x, fromParent, sortedKeys(want))
			return
		}
		age := 22 + int(x)
		data, ok = r.q(i, fmt.Sprintf(`query { Book(filter: {author: {age: {_ge: %d}}}, order: {rating: ASC}) { _docID rating } }`, age))
		if !ok {
			return
		}
		var wantB []string
		for b, bk := range r.books {
			if a, live := r.users[bk.author]; live && a >= age {
				wantB = append(wantB, b)
			}
		}
		sort.Strings(wantB)
		if got := idsOf(data["Book"]); canon(got) != canon(nonNil(wantB)) {
			r.res.violate("C09", "relation-filter-differs", "child-by-parent-field/"+cls, i, "Book(filter author.age>=%d) = %v, from the users' side %v", age, got, wantB)
			return
		}
		last := -1.0
		for _, row := range rows(data, "Book") {
			v, _ := row["rating"].(float64)
			if v < last {
				r.res.violate("C09", "order-through-relation", cls, i, "Book(filter author.age>=%d, order rating ASC) is not ordered", age)
				return
			}
			last = v
		}
	}
	// --- two hops
	data, ok = r.q(i, `query { Library { _docID books { _docID author { _docID } } } }`)
	if !ok {
		return
	}
	for _, row := range rows(data, "Library") {
		lid := fmt.Sprint(row["_docID"])
		var want []string
		for b, bk := range r.books {
			if bk.library == lid {
				want = append(want, b)
			}
		}
		sort.Strings(want)
		if got := idsOf(row["books"]); canon(got) != canon(nonNil(want)) {
			r.res.violate("C09", "parent-side-differs-from-links", "library/"+cls, i, "Library %s books %v, links %v", lid, got, want)
			return
		}
	}
	// --- one-to-one, both sides
	data, ok = r.q(i, `query { Person { _docID passport_id passport { _docID } } }`)
	if !ok {
		return
	}
	held := map[string]string{}
	for _, row := range rows(data, "Person") {
		id := fmt.Sprint(row["_docID"])
		want, known := r.persons[id]
		if !known {
			r.res.violate("C09", "phantom-document", "person/"+cls, i, "%s", id)
			return
		}
		got := ""
		if m, ok := row["passport"].(map[string]any); ok && m != nil {
			got = fmt.Sprint(m["_docID"])
		}
		wantLive := ""
		if r.passports[want] {
			wantLive = want
		}
		if got != wantLive {
			r.res.violate("C09", "child-side-differs-from-link", "one-to-one/"+cls, i, "Person %s passport{_docID}=%q, relation field %q", id, got, want)
			return
		}
		if got != "" {
			if other, dup := held[got]; dup {
				r.res.violate("C09", "one-to-one-held-twice", "observed/"+cls, i, "passport %s is linked from persons %s and %s", got, other, id)
				return
			}
			held[got] = id
		}
	}
	data, ok = r.q(i, `query { Passport { _docID owner { _docID } } }`)
	if !ok {
		return
	}
	for _, row := range rows(data, "Passport") {
		id := fmt.Sprint(row["_docID"])
		got := ""
		if m, ok := row["owner"].(map[string]any); ok && m != nil {
			got = fmt.Sprint(m["_docID"])
		}
		if got != held[id] {
			r.res.violate("C09", "sides-disagree", "one-to-one/"+cls, i, "Passport %s owner{_docID}=%q, but the person side says %q", id, got, held[id])
			return
		}
	}
	// --- the pair with the same field name on both sides
	data, ok = r.q(i, `query { Husband { _docID spouse { _docID } } }`)
	if !ok {
		return
	}
	heldW := map[string]string{}
	for _, row := range rows(data, "Husband") {
		id := fmt.Sprint(row["_docID"])
		got := ""
		if m, ok := row["spouse"].(map[string]any); ok && m != nil {
			got = fmt.Sprint(m["_docID"])
		}
		if got != r.husbands[id] {
			r.res.violate("C09", "child-side-differs-from-link", "one-to-one-same-name/"+cls, i, "Husband %s spouse{_docID}=%q, relation field %q", id, got, r.husbands[id])
			return
		}
		if got != "" {
			if other, dup := heldW[got]; dup {
				r.res.violate("C09", "one-to-one-held-twice", "observed/"+cls, i, "wife %s is linked from husbands %s and %s", got, other, id)
				return
			}
			heldW[got] = id
		}
	}
	data, ok = r.q(i, `query { Wife { _docID spouse { _docID } } }`)
	if !ok {
		return
	}
	for _, row := range rows(data, "Wife") {
		id := fmt.Sprint(row["_docID"])
		got := ""
		if m, ok := row["spouse"].(map[string]any); ok && m != nil {
			got = fmt.Sprint(m["_docID"])
		}
		if got != heldW[id] {
			r.res.violate("C09", "sides-disagree", "one-to-one-same-name/"+cls, i, "Wife %s spouse{_docID}=%q, but the husband side says %q", id, got, heldW[id])
			return
		}
	}
	// --- self reference
	data, ok = r.q(i, `query { Node { _docID parent { _docID } child { _docID } } }`)
	if !ok {
		return
	}
	childOf := map[string]string{}
	for c, par := range r.nodes {
		if par != "" {
			childOf[par] = c
		}
	}
	for _, row := range rows(data, "Node") {
		id := fmt.Sprint(row["_docID"])
		gotP, gotC := "", ""
		if m, ok := row["parent"].(map[string]any); ok && m != nil {
			gotP = fmt.Sprint(m["_docID"])
		}
		if m, ok := row["child"].(map[string]any); ok && m != nil {
			gotC = fmt.Sprint(m["_docID"])
		}
		if gotP != r.nodes[id] || gotC != childOf[id] {
			r.res.violate("C09", "sides-disagree", "self-reference/"+cls, i, "Node %s parent=%q child=%q, links say parent=%q child=%q", id, gotP, gotC, r.nodes[id], childOf[id])
			return
		}
	}
	r.checkShapes(i, cls)
	if len(r.res.Viols) > 0 {
		return
	}
	r.shape[cls] = true
	r.res.Stats["checkpoints"]++
}

func nonNil(xs []string) []string {
	if xs == nil {
		return []string{}
	}
	return xs
}

func normEmpty(m map[string][]string) map[string][]string {
	out := map[string][]string{}
	for k, v := range m {
		out[k] = nonNil(v)
	}
	return out
}
