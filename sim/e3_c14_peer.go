package verifsim

import (
	"context"
	"fmt"
	"sort"
	"strings"
	"testing/synctest"
	"time"

	"github.com/libp2p/go-libp2p/core/peer"
	"github.com/sourcenetwork/immutable"
	"github.com/sourcenetwork/lens/host-go/config/model"

	"github.com/sourcenetwork/defradb/internal/db"
)

// C14, peer part: a node with a real net.Peer is restarted; its peer configuration (replicators,
// P2P collections) must be what it was, and it must keep routing every later write to exactly the
// replicators configured for the document's collection.

func genC14Peer(seed int64, tier string) *Plan {
	r := newRng(seed, 141)
	p := &Plan{Prop: "C14", Engine: "E3", Seed: seed, Cfg: map[string]int{"peer": 1}}
	n := 6 + r.IntN(18)
	for i := 0; i < n; i++ {
		x := r.IntN(100)
		switch {
		case x < 25:
			p.Steps = append(p.Steps, Step{K: "rep", A: r.IntN(2), B: 1 + r.IntN(3)})
		case x < 33:
			p.Steps = append(p.Steps, Step{K: "unrep", A: r.IntN(2), B: 1 + r.IntN(3)})
		case x < 43:
			p.Steps = append(p.Steps, Step{K: "p2pcol", A: r.IntN(2), B: r.IntN(2)})
		case x < 78:
			p.Steps = append(p.Steps, Step{K: "write", A: r.IntN(2), B: r.IntN(3), C: r.IntN(64)})
		case x < 92:
			p.Steps = append(p.Steps, Step{K: "restart"})
		default:
			p.Steps = append(p.Steps, Step{K: "crash"})
		}
	}
	p.Steps = append(p.Steps, Step{K: "restart"}, Step{K: "write", A: 0, B: 0, C: 1}, Step{K: "write", A: 1, B: 0, C: 2})
	// schema patches (own stream of choices): a patched collection has a version id that differs from its root
	rs := newRng(seed, 143)
	if chance(rs, 60) {
		var steps []Step
		for _, st := range p.Steps {
			if chance(rs, 12) {
				steps = append(steps, Step{K: "patch", A: rs.IntN(2)})
			}
			steps = append(steps, st)
		}
		p.Steps = steps
	}
	return p
}

// genC14Sender: node A replicates to B, B has outages, and A itself is closed or crashes at seeded
// points — between writes, while pushes are in flight, in the middle of a retry pass. A twin that was
// never restarted delivers every commit once B is reachable; so must the restarted A (oracle and
// engine are those of C15, the violation is reported for C14).
func genC14Sender(seed int64, tier string) *Plan {
	r := newRng(seed, 142)
	p := &Plan{Prop: "C14", Engine: "E3", Seed: seed, Cfg: map[string]int{"peer": 2}}
	p.Cfg["intervals"] = r.IntN(2)
	p.Cfg["docs"] = 1 + r.IntN(3)
	p.Cfg["col"] = 0
	p.Cfg["named"] = r.IntN(2)
	p.Cfg["sign"] = 0
	p.Cfg["mode"] = 0
	restart := func() Step { return Step{K: pick(r, []string{"arestart", "acrash", "acrash"})} }
	p.Steps = append(p.Steps, Step{K: "setrep"}, Step{K: "write", A: 0, C: r.IntN(64), D: r.IntN(64)}, Step{K: "net", A: 3})
	for d := 1; d < p.Cfg["docs"]; d++ {
		p.Steps = append(p.Steps, Step{K: "write", A: 0, C: r.IntN(64), D: r.IntN(64)}, Step{K: "net", A: 3})
	}
	cycles := 1 + r.IntN(3)
	for c := 0; c < cycles; c++ {
		p.Steps = append(p.Steps, Step{K: "down"})
		for w := 0; w < 1+r.IntN(3); w++ {
			p.Steps = append(p.Steps, Step{K: "write", A: 1, B: r.IntN(3), C: r.IntN(64), D: r.IntN(64)})
		}
		if chance(r, 30) {
			p.Steps = append(p.Steps, restart()) // with retry records on disk, before any retry
		}
		if chance(r, 40) {
			p.Steps = append(p.Steps, Step{K: "tick", A: 3}) // a failed retry pass during the outage
		}
		if chance(r, 25) {
			p.Steps = append(p.Steps, restart())
		}
		p.Steps = append(p.Steps, Step{K: "up"}, Step{K: "tick", A: 3}) // the retry pass starts; its pushes are pending
		if chance(r, 60) {
			p.Steps = append(p.Steps, restart()) // in the middle of the retry pass
		}
		if chance(r, 50) {
			p.Steps = append(p.Steps, Step{K: "write", A: 1, B: r.IntN(3), C: r.IntN(64), D: r.IntN(64)})
		}
		p.Steps = append(p.Steps, Step{K: "net", A: pick(r, []int{3, 3, 4, 0})}, Step{K: "tick", A: r.IntN(6)}, Step{K: "net", A: 3})
		if chance(r, 25) {
			p.Steps = append(p.Steps, restart())
		}
	}
	p.Steps = append(p.Steps, Step{K: "settle"})
	return p
}

func (n *simNet) takePushes() [][2]string {
	n.mu.Lock()
	defer n.mu.Unlock()
	out := n.pushSeen
	n.pushSeen = nil
	return out
}

func runC14Peer(p *Plan, res *Result) {
	ctx, cancel := context.WithCancel(context.Background())
	defer cancel()
	installRand(p.Seed)
	net := newSimNet()
	opts := NodeOpts{DBOpts: []db.Option{db.WithEnabledSigning(false)}}
	iv := []time.Duration{time.Second}
	sdl := e3SDL(0, true)
	var nodes []*e2Node
	for i, name := range []string{"X", "B", "C"} {
		setRandStep("start" + name)
		n, err := net.startE2Node(ctx, i, NewSimStore(), seededPeerKey(p.Seed, name), iv, true, opts)
		if err != nil {
			res.HarnessErr = "start: " + err.Error()
			return
		}
		nodes = append(nodes, n)
		if _, err := n.DB.AddSchema(n.reqCtx(), sdl); err != nil {
			res.HarnessErr = "schema: " + err.Error()
			return
		}
	}
	x, sinks := nodes[0], nodes[1:]
	defer func() {
		x.shutdown()
		for _, s := range sinks {
			s.shutdown()
		}
	}()
	colNames := []string{"User", "Book"}
	colID := map[string]string{}
	cols, _ := x.DB.GetCollections(x.reqCtx(), clientFetchAll())
	for _, c := range cols {
		colID[c.Name()] = c.Version().CollectionID
	}
	// model: replicator peer -> set of collection names; subscribed P2P collections
	reps := map[int]map[string]bool{0: {}, 1: {}}
	p2p := map[string]bool{}
	docs := map[string][]string{}
	var shape []string
	drain := func() {
		for k := 0; k < 4; k++ {
			synctest.Wait()
			pend := net.pendingSorted()
			if len(pend) == 0 {
				break
			}
			for _, pr := range pend {
				net.deliver(pr, true)
			}
		}
		synctest.Wait()
		net.flushPubSub(0)
		synctest.Wait()
	}
	checkConfig := func(i int, when string) bool {
		got, err := x.Peer.GetAllReplicators(x.reqCtx())
		if err != nil {
			res.violate("C14", "peer-config-unreadable", when, i, "GetAllReplicators: %v", err)
			return false
		}
		var gotS, wantS []string
		for _, rp := range got {
			var cs []string
			for _, c := range rp.CollectionIDs {
				cs = append(cs, c)
			}
			sort.Strings(cs)
			gotS = append(gotS, rp.Info.ID.String()+"="+strings.Join(cs, ","))
		}
		for k, set := range reps {
			if len(set) == 0 {
				continue
			}
			var cs []string
			for c := range set {
				cs = append(cs, colID[c])
			}
			sort.Strings(cs)
			wantS = append(wantS, sinks[k].PID.String()+"="+strings.Join(cs, ","))
		}
		sort.Strings(gotS)
		sort.Strings(wantS)
		if strings.Join(gotS, ";") != strings.Join(wantS, ";") {
			res.violate("C14", "peer-config-differs", "replicators/"+when, i, "%s: GetAllReplicators %v, configured %v", when, gotS, wantS)
			return false
		}
		gp, err := x.Peer.GetAllP2PCollections(x.reqCtx())
		if err != nil {
			res.violate("C14", "peer-config-unreadable", when, i, "GetAllP2PCollections: %v", err)
			return false
		}
		var wp []string
		for c := range p2p {
			wp = append(wp, c) // GetAllP2PCollections reports names
		}
		sort.Strings(gp)
		sort.Strings(wp)
		if strings.Join(gp, ",") != strings.Join(wp, ",") {
			res.violate("C14", "peer-config-differs", "p2p-collections/"+when, i, "%s: GetAllP2PCollections %v, configured %v", when, gp, wp)
			return false
		}
		return true
	}
	restarted := false
	patched := map[string]int{}
	for i, s := range p.Steps {
		if len(res.Viols) > 0 || res.HarnessErr != "" {
			break
		}
		setRandStep(fmt.Sprintf("step|%d", i))
		switch s.K {
		case "rep", "unrep":
			k := mod(s.A, 2)
			var names []string
			for b, c := range colNames {
				if s.B>>uint(b)&1 == 1 {
					names = append(names, c)
				}
			}
			info := peer.AddrInfo{ID: sinks[k].PID}
			if s.K == "rep" {
				if err := x.Peer.SetReplicator(x.reqCtx(), info, names...); err != nil {
					res.HarnessErr = "SetReplicator: " + err.Error()
					return
				}
				for _, c := range names {
					reps[k][c] = true
				}
			} else {
				if len(reps[k]) == 0 {
					continue
				}
				if err := x.Peer.DeleteReplicator(x.reqCtx(), info, names...); err != nil {
					res.HarnessErr = "DeleteReplicator: " + err.Error()
					return
				}
				for _, c := range names {
					delete(reps[k], c)
				}
			}
			drain()
			net.takePushes()
			shape = append(shape, s.K)
		case "p2pcol":
			c := colNames[mod(s.B, 2)]
			if s.A == 0 {
				if err := x.Peer.AddP2PCollections(x.reqCtx(), c); err != nil {
					res.HarnessErr = "AddP2PCollections: " + err.Error()
					return
				}
				p2p[c] = true
			} else if p2p[c] {
				if err := x.Peer.RemoveP2PCollections(x.reqCtx(), c); err != nil {
					res.HarnessErr = "RemoveP2PCollections: " + err.Error()
					return
				}
				delete(p2p, c)
			}
			drain()
			net.takePushes()
			shape = append(shape, "p2pcol")
		case "write":
			c := colNames[mod(s.A, 2)]
			var q string
			if len(docs[c]) == 0 || s.B == 0 {
				if c == "User" {
					q = fmt.Sprintf(`mutation { create_User(input: {name: "u%d", age: %d}) { _docID } }`, i, 20+mod(s.C, 9))
				} else {
					q = fmt.Sprintf(`mutation { create_Book(input: {title: "b%d", rating: %d.5}) { _docID } }`, i, mod(s.C, 9))
				}
			} else {
				id := docs[c][mod(s.C, len(docs[c]))]
				if c == "User" {
					q = fmt.Sprintf(`mutation { update_User(docID: %q, input: {age: %d}) { _docID } }`, id, 30+mod(s.C+i, 50))
				} else {
					q = fmt.Sprintf(`mutation { update_Book(docID: %q, input: {rating: %d.25}) { _docID } }`, id, mod(s.C+i, 50))
				}
			}
			net.takePushes()
			data, errs := x.GQL(q)
			if len(errs) > 0 {
				res.HarnessErr = fmt.Sprintf("write: %v", errs)
				return
			}
			var id string
			for _, v := range data {
				if rs, ok := v.([]map[string]any); ok && len(rs) > 0 {
					id = fmt.Sprint(rs[0]["_docID"])
				}
			}
			if !containsStr(docs[c], id) {
				docs[c] = append(docs[c], id)
			}
			synctest.Wait()
			// which peers was the write pushed to?
			got := map[string]bool{}
			for _, ps := range net.takePushes() {
				if ps[1] == id {
					got[ps[0]] = true
				}
			}
			want := map[string]bool{}
			for k, set := range reps {
				if set[c] {
					want[sinks[k].PID.String()] = true
				}
			}
			if strings.Join(sortedKeys(got), ",") != strings.Join(sortedKeys(want), ",") {
				cls := "never-restarted"
				if restarted {
					cls = "after-restart"
				}
				res.violate("C14", "routing-differs-from-configuration", cls, i,
					"a write to %s was pushed to replicators %v, the replicators configured for that collection are %v", c, sortedKeys(got), sortedKeys(want))
				return
			}
			res.Stats["writes_routed"]++
			drain()
			shape = append(shape, "write")
		case "patch":
			c := colNames[mod(s.A, 2)]
			if patched[c] >= 2 {
				continue
			}
			patched[c]++
			patch := fmt.Sprintf(`[{"op":"add","path":"/%s/Fields/-","value":{"Name":"px%d","Kind":11}}]`, c, patched[c])
			for _, nd := range append([]*e2Node{x}, sinks...) {
				if err := nd.DB.PatchSchema(nd.reqCtx(), patch, immutable.None[model.Lens](), true); err != nil {
					res.HarnessErr = "PatchSchema: " + err.Error()
					return
				}
			}
			drain()
			net.takePushes()
			shape = append(shape, "patch")
			res.Stats["schema_patches"]++
		case "restart", "crash":
			drain()
			topicsBefore := x.Peer.SimSubscribedTopics()
			sort.Strings(topicsBefore)
			st := x.Store
			key := x.key
			if s.K == "crash" {
				x.crash()
			} else {
				x.shutdown()
			}
			net.mu.Lock()
			delete(net.nodes, x.PID)
			net.mu.Unlock()
			setRandStep("restartX")
			nx, err := net.startE2Node(ctx, 0, st.Reopen(-1), key, iv, true, opts)
			if err != nil {
				res.violate("C14", "cannot-restart", s.K, i, "restart of database and peer failed: %v", err)
				return
			}
			x = nx
			synctest.Wait()
			net.takePushes()
			restarted = true
			res.Stats["peer_restarts"]++
			shape = append(shape, s.K)
			if !checkConfig(i, "after "+s.K) {
				return
			}
			// the restarted node listens where the node listened before it stopped
			topicsAfter := x.Peer.SimSubscribedTopics()
			sort.Strings(topicsAfter)
			if strings.Join(topicsBefore, ",") != strings.Join(topicsAfter, ",") {
				res.violate("C14", "peer-config-differs", "subscribed-topics/after "+s.K, i,
					"after %s the node is subscribed to topics %v, before it stopped to %v", s.K, topicsAfter, topicsBefore)
				return
			}
		}
	}
	if len(res.Viols) == 0 && res.HarnessErr == "" {
		checkConfig(len(p.Steps), "end")
	}
	res.Shape = hashStrings(shape...)
	res.ShapeSet = []string{"peer:" + res.Shape}
	res.Nontrivial = restarted && res.Stats["writes_routed"] > 0
}

func containsStr(xs []string, x string) bool {
	for _, y := range xs {
		if y == x {
			return true
		}
	}
	return false
}
