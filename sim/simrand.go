package verifsim

import (
	crand "crypto/rand"
	"encoding/binary"
	"hash/fnv"
	"io"
	"math/rand/v2"
	"runtime"
	"strings"
	"sync"
)

// simRand replaces crypto/rand.Reader. The stream a caller reads from is chosen
// by (seed, current step key, calling DefraDB function), so draws by background
// goroutines (libp2p) cannot shift the bytes DefraDB's own code receives, and a
// twin that skips a step still draws the same bytes for the steps it shares.
type simRand struct {
	mu      sync.Mutex
	seed    int64
	stepKey string
	streams map[string]*rand.ChaCha8
	Draws   int
}

var globalRand = &simRand{streams: map[string]*rand.ChaCha8{}}
var origRandReader io.Reader

func installRand(seed int64) {
	if origRandReader == nil {
		origRandReader = crand.Reader
	}
	globalRand.mu.Lock()
	globalRand.seed = seed
	globalRand.stepKey = "init"
	globalRand.streams = map[string]*rand.ChaCha8{}
	globalRand.Draws = 0
	globalRand.mu.Unlock()
	crand.Reader = globalRand
}

// setRandStep names the plan step (and node) being executed.
func setRandStep(key string) {
	globalRand.mu.Lock()
	globalRand.stepKey = key
	// a step always starts its streams afresh, so that repeating a step (E3
	// repeats one call per fault site) draws the same bytes again
	for k := range globalRand.streams {
		if k != "background" {
			delete(globalRand.streams, k)
		}
	}
	globalRand.mu.Unlock()
}

func callerKey() string {
	var pcs [24]uintptr
	n := runtime.Callers(3, pcs[:])
	frames := runtime.CallersFrames(pcs[:n])
	for {
		f, more := frames.Next()
		fn := f.Function
		if strings.Contains(fn, "sourcenetwork/defradb/") && !strings.Contains(fn, "/internal/verifsim") {
			return fn
		}
		if !more {
			break
		}
	}
	return "background"
}

func (r *simRand) Read(p []byte) (int, error) {
	site := callerKey()
	r.mu.Lock()
	defer r.mu.Unlock()
	key := site
	if site != "background" {
		key = r.stepKey + "|" + site
	}
	st, ok := r.streams[key]
	if !ok {
		h := fnv.New64a()
		h.Write([]byte(key))
		var seed [32]byte
		binary.LittleEndian.PutUint64(seed[0:], uint64(r.seed))
		binary.LittleEndian.PutUint64(seed[8:], h.Sum64())
		st = rand.NewChaCha8(seed)
		r.streams[key] = st
	}
	r.Draws++
	return st.Read(p)
}
