package verifsim

import (
	crand "crypto/rand"
	"encoding/binary"
	"hash/fnv"
	"io"
	"math/rand/v2"
	"os"
	"runtime"
	"strings"
	"sync"
	_ "unsafe" // go:linkname
)

// Since Go 1.26 the key generation functions of the standard library (ecdh, ed25519, ...) ignore the reader
// they are given and draw from the internal DRBG; crypto/internal/rand.SetTestingReader (the hook behind
// testing/cryptotest.SetGlobalRandom) redirects those draws as well.
//
//go:linkname randSetTestingReader crypto/internal/rand.SetTestingReader
func randSetTestingReader(r io.Reader)

// simRand replaces crypto/rand.Reader. The stream a caller reads from is chosen
// by (seed, current step key, calling DefraDB function), so draws by background
// goroutines (libp2p) cannot shift the bytes DefraDB's own code receives, and a
// twin that skips a step still draws the same bytes for the steps it shares.
type simRand struct {
	mu      sync.Mutex
	seed    int64
	stepKey string
	streams map[string]*rand.ChaCha8
	Draws   int
}

var globalRand = &simRand{streams: map[string]*rand.ChaCha8{}}
var origRandReader io.Reader

func installRand(seed int64) {
	if origRandReader == nil {
		origRandReader = crand.Reader
	}
	globalRand.mu.Lock()
	globalRand.seed = seed
	globalRand.stepKey = "init"
	globalRand.streams = map[string]*rand.ChaCha8{}
	globalRand.Draws = 0
	globalRand.mu.Unlock()
	crand.Reader = globalRand
	randSetTestingReader(globalRand)
}

// setRandStep names the plan step (and node) being executed.
func setRandStep(key string) {
	globalRand.mu.Lock()
	globalRand.stepKey = key
	// a step always starts its streams afresh, so that repeating a step (E3
	// repeats one call per fault site) draws the same bytes again
	for k := range globalRand.streams {
		if k != "background" {
			delete(globalRand.streams, k)
		}
	}
	globalRand.mu.Unlock()
}

func callerKey() string {
	var pcs [24]uintptr
	n := runtime.Callers(3, pcs[:])
	frames := runtime.CallersFrames(pcs[:n])
	for {
		f, more := frames.Next()
		fn := f.Function
		if strings.Contains(fn, "sourcenetwork/defradb/") && !strings.Contains(fn, "/internal/verifsim") {
			return fn
		}
		if !more {
			break
		}
	}
	return "background"
}

func (r *simRand) Read(p []byte) (int, error) {
	site := callerKey()
	r.mu.Lock()
	defer r.mu.Unlock()
	key := site
	if site != "background" {
		key = r.stepKey + "|" + site
	}
	st, ok := r.streams[key]
	if ok && orderFreeSite(site) {
		// DefraDB draws one key and one nonce per encrypted field while it walks the fields of a document in
		// Go map order: which field receives the n-th draw is not a function of the seed. These sites get the
		// same bytes on every draw within a step, so that ciphertexts (and with them block ids) are.
		ok = false
	}
	if !ok {
		h := fnv.New64a()
		h.Write([]byte(key))
		var seed [32]byte
		binary.LittleEndian.PutUint64(seed[0:], uint64(r.seed))
		binary.LittleEndian.PutUint64(seed[8:], h.Sum64())
		st = rand.NewChaCha8(seed)
		r.streams[key] = st
	}
	r.Draws++
	if randTrace {
		println("RAND", key, len(p))
	}
	return st.Read(p)
}

var randTrace = os.Getenv("VERIF_RANDTRACE") != ""

func orderFreeSite(site string) bool {
	return strings.HasSuffix(site, "internal/encryption.generateEncryptionKey") || strings.HasSuffix(site, "defradb/crypto.generateNonce")
}
