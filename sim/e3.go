package verifsim

import (
	"context"
	"encoding/json"
	"fmt"
	"os"
	"path/filepath"
	"sort"
	"strings"
	"testing/synctest"

	"github.com/sourcenetwork/corekv"
	"github.com/sourcenetwork/immutable"
	"github.com/sourcenetwork/lens/host-go/config/model"

	"github.com/sourcenetwork/defradb/client"
	"github.com/sourcenetwork/defradb/event"
)

// E3 — single node on a fault-injecting store. See DESIGN.md §4/§5 (C05, C20, C14, C18).

// ---- schema ---------------------------------------------------------------------

func e3SDL(col int, rel bool) string {
	var b strings.Builder
	b.WriteString("type User")
	if col == 1 {
		b.WriteString(" @branchable")
	}
	b.WriteString(" {\n")
	nameDir, ageDir := "", ""
	switch col {
	case 2:
		nameDir = " @index"
	case 3:
		ageDir = " @index(unique: true)"
	case 4:
		nameDir, ageDir = " @index", " @index"
	case 5:
		nameDir = " @index(includes: [{field: \"age\"}])"
	}
	fmt.Fprintf(&b, "  name: String%s\n  age: Int%s\n  points: Int @crdt(type: pncounter)\n  flag: Boolean\n", nameDir, ageDir)
	if rel {
		b.WriteString("  books: [Book]\n  card: Card\n")
	}
	b.WriteString("}\n")
	if rel {
		b.WriteString("type Book {\n  title: String\n  rating: Float\n  author: User\n  cards: [Card]\n}\n")
		b.WriteString("type Card {\n  code: String\n  holder: User @primary\n  book: Book\n}\n")
	}
	return b.String()
}

// ---- a node with everything needed to restart it ----------------------------------

type e3Node struct {
	*SimNode
	opts NodeOpts
}

func e3Start(ctx context.Context, st *SimStore, opts NodeOpts) (*e3Node, error) {
	n, err := startNode(ctx, "n", st, opts)
	if err != nil {
		return nil, err
	}
	return &e3Node{SimNode: n, opts: opts}, nil
}

// Fork: an independent copy of the durable state (twin).
func (s *SimStore) Fork() *SimStore {
	s.log.mu.Lock()
	cp := &durableLog{batches: append([][]kvWrite(nil), s.log.batches...)}
	s.log.mu.Unlock()
	tmp := &SimStore{log: cp}
	return tmp.Reopen(-1)
}

// ---- logical dump ---------------------------------------------------------------

type dumper struct {
	withCommits bool
}

func colFieldSel(col client.Collection) (string, []string) {
	var names []string
	for _, f := range col.Definition().GetFields() {
		if f.Kind.IsObject() {
			continue // relation objects are covered by their _id fields
		}
		names = append(names, f.Name)
	}
	sort.Strings(names)
	sel := "_deleted " + strings.Join(names, " ")
	return sel, names
}

// fullDump: documents incl. deleted, commits, heads, index-backed query results,
// collection / index / schema descriptions, introspected types.
func fullDump(n *SimNode, withCommits bool) (map[string]string, error) {
	out := map[string]string{}
	ctx := n.reqCtx()
	cols, err := n.DB.GetCollections(ctx, client.CollectionFetchOptions{IncludeInactive: immutable.Some(true)})
	if err != nil {
		return nil, fmt.Errorf("GetCollections: %w", err)
	}
	var descs []string
	for _, c := range cols {
		b, _ := json.Marshal(c.Version())
		descs = append(descs, string(b))
	}
	sort.Strings(descs)
	out["collections"] = strings.Join(descs, "\n")
	schemas, err := n.DB.GetSchemas(ctx, client.SchemaFetchOptions{})
	if err != nil {
		return nil, fmt.Errorf("GetSchemas: %w", err)
	}
	var sds []string
	for _, s := range schemas {
		b, _ := json.Marshal(s)
		sds = append(sds, string(b))
	}
	sort.Strings(sds)
	out["schemas"] = strings.Join(sds, "\n")
	idx, err := n.DB.GetAllIndexes(ctx)
	if err != nil {
		return nil, fmt.Errorf("GetAllIndexes: %w", err)
	}
	ib, _ := json.Marshal(idx)
	out["indexes"] = string(ib)
	active, err := n.DB.GetCollections(ctx, client.CollectionFetchOptions{})
	if err != nil {
		return nil, err
	}
	for _, c := range active {
		if c.Name() == "" {
			continue
		}
		sel, _ := colFieldSel(c)
		data, errs := n.GQL(fmt.Sprintf("query { %s(showDeleted: true) { %s } }", c.Name(), sel))
		if len(errs) > 0 {
			return nil, fmt.Errorf("query %s: %v", c.Name(), errs)
		}
		out["docs/"+c.Name()] = canon(sortRows(rows(data, c.Name()), "_docID"))
		// index-backed reads: one equality query per indexed field value present
		for _, ix := range idx[c.Name()] {
			if len(ix.Fields) == 0 {
				continue
			}
			f := ix.Fields[0].Name
			seen := map[string]bool{}
			for _, row := range rows(data, c.Name()) {
				v := row[f]
				lit := gqlLit(v)
				if seen[lit] {
					continue
				}
				seen[lit] = true
				d2, e2 := n.GQL(fmt.Sprintf("query { %s(filter: {%s: {_eq: %s}}) { _docID } }", c.Name(), f, lit))
				if len(e2) > 0 {
					// an index-backed read that fails is part of the observable state (it must fail alike on both sides);
					// whether it may fail at all is C07's matter
					out["ix/"+c.Name()+"/"+ix.Name+"/"+lit] = "ERR " + strings.Join(e2, ";")
					if os.Getenv("VERIF_IXERR") != "" {
						fmt.Fprintf(os.Stderr, "IXERR %s.%s=%s: %v\n", c.Name(), f, lit, e2)
					}
					continue
				}
				out["ix/"+c.Name()+"/"+ix.Name+"/"+lit] = canon(sortRows(rows(d2, c.Name()), "_docID"))
			}
		}
		td, terrs := n.GQL(fmt.Sprintf(`query { __type(name: %q) { fields { name } } }`, c.Name()))
		if len(terrs) > 0 {
			return nil, fmt.Errorf("introspection: %v", terrs)
		}
		var fns []string
		if tm, ok := td["__type"].(map[string]any); ok {
			for _, f := range rows(tm, "fields") {
				fns = append(fns, fmt.Sprint(f["name"]))
			}
		}
		sort.Strings(fns)
		out["type/"+c.Name()] = strings.Join(fns, ",")
	}
	tn, terrs := n.GQL(`query { __schema { types { name } } }`)
	if len(terrs) > 0 {
		return nil, fmt.Errorf("introspection: %v", terrs)
	}
	var tnames []string
	if sm, ok := tn["__schema"].(map[string]any); ok {
		for _, t := range rows(sm, "types") {
			tnames = append(tnames, fmt.Sprint(t["name"]))
		}
	}
	sort.Strings(tnames)
	out["typenames"] = strings.Join(tnames, ",")
	if withCommits {
		data, errs := n.GQL("query { commits { cid docID fieldName height } }")
		if len(errs) > 0 {
			return nil, fmt.Errorf("commits: %v", errs)
		}
		out["commits"] = canon(sortRows(rows(data, "commits"), "cid"))
	}
	// heads: raw headstore keys (not their order)
	kvs, err := scanPrefix(n.ctx, n.Store.base, "/db/heads/")
	if err != nil {
		return nil, err
	}
	var hs []string
	for _, kv := range kvs {
		hs = append(hs, string(kv.k))
	}
	out["heads"] = strings.Join(hs, "\n")
	return out, nil
}

func gqlLit(v any) string {
	switch x := v.(type) {
	case nil:
		return "null"
	case string:
		return fmt.Sprintf("%q", x)
	default:
		return canon(x)
	}
}

func diffDump(a, b map[string]string) string {
	var ks []string
	seen := map[string]bool{}
	for k := range a {
		ks = append(ks, k)
		seen[k] = true
	}
	for k := range b {
		if !seen[k] {
			ks = append(ks, k)
		}
	}
	sort.Strings(ks)
	for _, k := range ks {
		if a[k] != b[k] {
			return fmt.Sprintf("%s: %s  =>  %s", k, short(a[k]), short(b[k]))
		}
	}
	return ""
}

func dumpSection(d string) string {
	if i := strings.Index(d, ":"); i > 0 {
		s := d[:i]
		if j := strings.Index(s, "/"); j > 0 {
			s = s[:j]
		}
		return s
	}
	return "?"
}

// ---- calls ----------------------------------------------------------------------

// callEnv is what a call needs to pick its arguments; it is computed on the
// pre-state and is identical for the twin and the node under test.
type callEnv struct {
	users  []map[string]any // live + deleted, sorted by _docID
	books  []map[string]any
	rel    bool
	col    int
	seed   int64
	dir    string
	remote *remoteCommit
	// versions known for SetActiveSchemaVersion
	versions   []string
	importFile string
	// txnContinue: operations of the transaction to leave out (reference run), and those that reported an error
	skipMask   int
	lastFailed int
}

type remoteCommit struct {
	docID string
	cid   string
	colID string
}

type apiCall struct {
	Kind string
	// Run executes the call on a node; col is a User collection handle (fresh or long-lived).
	Run func(n *SimNode, h *handles) error
	// MayFailClean: the call is expected to fail without faults on this pre-state (still must be all-or-nothing).
}

type handles struct {
	fresh bool
	user  client.Collection
	book  client.Collection
}

func (h *handles) User(n *SimNode) (client.Collection, error) {
	if h.fresh || h.user == nil {
		c, err := n.DB.GetCollectionByName(n.reqCtx(), "User")
		if err != nil {
			return nil, err
		}
		if h.fresh {
			return c, nil
		}
		h.user = c
	}
	return h.user, nil
}

func liveOnes(rs []map[string]any) []map[string]any {
	var out []map[string]any
	for _, r := range rs {
		if d, _ := r["_deleted"].(bool); !d {
			out = append(out, r)
		}
	}
	return out
}

var e3Names = []string{"ann", "bob", "cy", "dee", "eve"}

func gqlErr(errs []string) error {
	if len(errs) == 0 {
		return nil
	}
	return fmt.Errorf("%s", strings.Join(errs, "; "))
}

const nCallKinds = 28

func callKindName(k int) string {
	return []string{"gqlCreate", "gqlCreateMany", "gqlUpdateByID", "gqlUpdateByFilter", "gqlDeleteByID", "gqlDeleteByFilter",
		"gqlUpsert", "colCreate", "colCreateMany", "colUpdate", "colSave", "colDelete", "colUpdateWithFilter",
		"colDeleteWithFilter", "createIndex", "dropIndex", "addSchema", "patchSchema", "setActiveVersion", "merge",
		"explicitTxn", "basicImport", "txnContinue", "relCreate", "relUpdateByRelatedFilter", "relDeleteByRelatedFilter", "relCreateOneToOne", "relUpdateOneToOne"}[mod(k, nCallKinds)]
}

// buildCall makes the API call for a step on a pre-state.
func buildCall(s Step, env *callEnv) *apiCall {
	kind := callKindName(s.A)
	live := liveOnes(env.users)
	pickLive := func(i int) map[string]any {
		if len(live) == 0 {
			return nil
		}
		return live[mod(i, len(live))]
	}
	name := e3Names[mod(s.B, len(e3Names))]
	age := 20 + mod(s.C, 7)
	pts := 1 + mod(s.D, 9)
	c := &apiCall{Kind: kind}
	switch kind {
	case "gqlCreate":
		c.Run = func(n *SimNode, h *handles) error {
			_, errs := n.GQL(fmt.Sprintf(`mutation { create_User(input: {name: %q, age: %d, points: %d}) { _docID } }`, name+"-new", age+100, pts))
			return gqlErr(errs)
		}
	case "gqlCreateMany":
		c.Run = func(n *SimNode, h *handles) error {
			// the middle document may collide with an existing unique value
			_, errs := n.GQL(fmt.Sprintf(`mutation { create_User(input: [{name: %q, age: %d}, {name: %q, age: %d}, {name: %q, age: %d, points: %d}]) { _docID } }`,
				name+"-m1", age+200, name+"-m2", age, name+"-m3", age+201, pts))
			return gqlErr(errs)
		}
	case "gqlUpdateByID":
		d := pickLive(s.B)
		c.Run = func(n *SimNode, h *handles) error {
			if d == nil {
				return nil
			}
			_, errs := n.GQL(fmt.Sprintf(`mutation { update_User(docID: %q, input: {age: %d, points: %d}) { _docID } }`, d["_docID"], age+300, pts))
			return gqlErr(errs)
		}
	case "gqlUpdateByFilter":
		c.Run = func(n *SimNode, h *handles) error {
			_, errs := n.GQL(fmt.Sprintf(`mutation { update_User(filter: {age: {_ge: %d}}, input: {flag: true, points: %d}) { _docID } }`, 20+mod(s.B, 4), pts))
			return gqlErr(errs)
		}
	case "gqlDeleteByID":
		d := pickLive(s.B)
		c.Run = func(n *SimNode, h *handles) error {
			if d == nil {
				return nil
			}
			_, errs := n.GQL(fmt.Sprintf(`mutation { delete_User(docID: %q) { _docID } }`, d["_docID"]))
			return gqlErr(errs)
		}
	case "gqlDeleteByFilter":
		c.Run = func(n *SimNode, h *handles) error {
			_, errs := n.GQL(fmt.Sprintf(`mutation { delete_User(filter: {age: {_le: %d}}) { _docID } }`, 20+mod(s.B, 6)))
			return gqlErr(errs)
		}
	case "gqlUpsert":
		c.Run = func(n *SimNode, h *handles) error {
			_, errs := n.GQL(fmt.Sprintf(`mutation { upsert_User(filter: {name: {_eq: %q}}, create: {name: %q, age: %d}, update: {age: %d}) { _docID } }`,
				name, name, age+400, age+401))
			return gqlErr(errs)
		}
	case "colCreate":
		c.Run = func(n *SimNode, h *handles) error {
			col, err := h.User(n)
			if err != nil {
				return err
			}
			doc, err := client.NewDocFromJSON([]byte(fmt.Sprintf(`{"name": %q, "age": %d, "points": %d}`, name+"-c", age+500, pts)), col.Definition())
			if err != nil {
				return err
			}
			return col.Create(n.reqCtx(), doc)
		}
	case "colCreateMany":
		c.Run = func(n *SimNode, h *handles) error {
			col, err := h.User(n)
			if err != nil {
				return err
			}
			var docs []*client.Document
			for i, a := range []int{age + 600, age, age + 601} {
				doc, err := client.NewDocFromJSON([]byte(fmt.Sprintf(`{"name": %q, "age": %d}`, fmt.Sprintf("%s-cm%d", name, i), a)), col.Definition())
				if err != nil {
					return err
				}
				docs = append(docs, doc)
			}
			return col.CreateMany(n.reqCtx(), docs)
		}
	case "colUpdate", "colSave", "colDelete":
		d := pickLive(s.B)
		c.Run = func(n *SimNode, h *handles) error {
			if d == nil {
				return nil
			}
			col, err := h.User(n)
			if err != nil {
				return err
			}
			id, err := client.NewDocIDFromString(d["_docID"].(string))
			if err != nil {
				return err
			}
			if kind == "colDelete" {
				_, err = col.Delete(n.reqCtx(), id)
				return err
			}
			doc, err := col.Get(n.reqCtx(), id, false)
			if err != nil {
				return err
			}
			if err := doc.Set("age", int64(age+700)); err != nil {
				return err
			}
			if err := doc.Set("points", int64(pts)); err != nil {
				return err
			}
			if kind == "colSave" {
				return col.Save(n.reqCtx(), doc)
			}
			return col.Update(n.reqCtx(), doc)
		}
	case "colUpdateWithFilter":
		c.Run = func(n *SimNode, h *handles) error {
			col, err := h.User(n)
			if err != nil {
				return err
			}
			_, err = col.UpdateWithFilter(n.reqCtx(), fmt.Sprintf(`{age: {_ge: %d}}`, 20+mod(s.B, 4)), fmt.Sprintf(`{"flag": false, "points": %d}`, pts))
			return err
		}
	case "colDeleteWithFilter":
		c.Run = func(n *SimNode, h *handles) error {
			col, err := h.User(n)
			if err != nil {
				return err
			}
			_, err = col.DeleteWithFilter(n.reqCtx(), fmt.Sprintf(`{age: {_le: %d}}`, 20+mod(s.B, 6)))
			return err
		}
	case "createIndex":
		c.Run = func(n *SimNode, h *handles) error {
			col, err := h.User(n)
			if err != nil {
				return err
			}
			field := []string{"flag", "name", "age", "points"}[mod(s.B, 4)]
			_, err = col.CreateIndex(n.reqCtx(), client.IndexCreateRequest{
				Name:   "ix_" + field,
				Fields: []client.IndexedFieldDescription{{Name: field, Descending: mod(s.C, 2) == 1}},
				Unique: mod(s.D, 3) == 0,
			})
			return err
		}
	case "dropIndex":
		c.Run = func(n *SimNode, h *handles) error {
			col, err := h.User(n)
			if err != nil {
				return err
			}
			ixs, err := col.GetIndexes(n.reqCtx())
			if err != nil {
				return err
			}
			if len(ixs) == 0 {
				return nil
			}
			sort.Slice(ixs, func(i, j int) bool { return ixs[i].Name < ixs[j].Name })
			return col.DropIndex(n.reqCtx(), ixs[mod(s.B, len(ixs))].Name)
		}
	case "addSchema":
		c.Run = func(n *SimNode, h *handles) error {
			_, err := n.DB.AddSchema(n.reqCtx(), fmt.Sprintf("type Extra%d { label: String @index\n weight: Int }", mod(s.B, 3)))
			return err
		}
	case "patchSchema":
		c.Run = func(n *SimNode, h *handles) error {
			patch := fmt.Sprintf(`[{"op":"add","path":"/User/Fields/-","value":{"Name":"added%d","Kind":11}}]`, mod(s.B, 3))
			return n.DB.PatchSchema(n.reqCtx(), patch, immutable.None[model.Lens](), mod(s.C, 2) == 0)
		}
	case "setActiveVersion":
		c.Run = func(n *SimNode, h *handles) error {
			if len(env.versions) < 2 {
				return nil
			}
			return n.DB.SetActiveSchemaVersion(n.reqCtx(), env.versions[mod(s.B, len(env.versions))])
		}
	case "merge":
		c.Run = func(n *SimNode, h *handles) error {
			if env.remote == nil {
				return nil
			}
			cc, err := parseCid(env.remote.cid)
			if err != nil {
				return err
			}
			return n.DB.VerifExecuteMerge(n.ctx, event.Merge{DocID: env.remote.docID, Cid: cc, CollectionID: env.remote.colID})
		}
	case "explicitTxn":
		d := pickLive(s.B)
		c.Run = func(n *SimNode, h *handles) error {
			txn, err := n.DB.NewTxn(n.reqCtx(), false)
			if err != nil {
				return err
			}
			defer txn.Discard(n.reqCtx())
			res := txn.ExecRequest(n.reqCtx(), fmt.Sprintf(`mutation { create_User(input: {name: %q, age: %d}) { _docID } }`, name+"-tx", age+800))
			if len(res.GQL.Errors) > 0 {
				return res.GQL.Errors[0]
			}
			if d != nil {
				res = txn.ExecRequest(n.reqCtx(), fmt.Sprintf(`mutation { update_User(docID: %q, input: {points: %d}) { _docID } }`, d["_docID"], pts))
				if len(res.GQL.Errors) > 0 {
					return res.GQL.Errors[0]
				}
			}
			return txn.Commit(n.reqCtx())
		}
	case "txnContinue":
		// an explicit transaction whose caller goes on after an operation reported an error, and commits:
		// the operations that failed must have no part in what is committed
		d := pickLive(s.B)
		c.Run = func(n *SimNode, h *handles) error {
			txn, err := n.DB.NewTxn(n.reqCtx(), false)
			if err != nil {
				return err
			}
			defer txn.Discard(n.reqCtx())
			ops := []string{
				fmt.Sprintf(`mutation { create_User(input: {name: %q, age: %d, points: %d}) { _docID } }`, name+"-t1", age, pts),
				fmt.Sprintf(`mutation { create_User(input: {name: %q, age: %d}) { _docID } }`, name+"-t2", age+900),
			}
			if d != nil {
				ops = append(ops, fmt.Sprintf(`mutation { update_User(docID: %q, input: {age: %d, flag: true}) { _docID } }`, d["_docID"], 20+mod(s.D, 7)))
			}
			ops = append(ops, fmt.Sprintf(`mutation { create_User(input: {name: %q, age: %d}) { _docID } }`, name+"-t1", age)) // the first one again: already exists
			failed := 0
			for k, q := range ops {
				if env.skipMask>>uint(k)&1 == 1 {
					continue
				}
				if res := txn.ExecRequest(n.reqCtx(), q); len(res.GQL.Errors) > 0 {
					failed |= 1 << uint(k)
				}
			}
			env.lastFailed = failed
			return txn.Commit(n.reqCtx())
		}
	case "relCreate":
		// mutations that read through a relation (plans with the Book collection)
		d := pickLive(s.B)
		c.Run = func(n *SimNode, h *handles) error {
			author := "null"
			if d != nil {
				author = fmt.Sprintf("%q", d["_docID"])
			}
			_, errs := n.GQL(fmt.Sprintf(`mutation { create_Book(input: {title: %q, rating: %d.5, author: %s}) { _docID author { name } } }`, name+"-book", mod(s.D, 5), author))
			return gqlErr(errs)
		}
	case "relUpdateByRelatedFilter":
		c.Run = func(n *SimNode, h *handles) error {
			_, errs := n.GQL(fmt.Sprintf(`mutation { update_Book(filter: {author: {age: {_ge: %d}}}, input: {rating: %d.25}) { _docID } }`, 20+mod(s.B, 4), mod(s.D, 7)))
			return gqlErr(errs)
		}
	case "relDeleteByRelatedFilter":
		c.Run = func(n *SimNode, h *handles) error {
			_, errs := n.GQL(fmt.Sprintf(`mutation { delete_Book(filter: {author: {age: {_ge: %d}}}) { _docID } }`, 20+mod(s.B, 4)))
			return gqlErr(errs)
		}
	case "relCreateOneToOne":
		// the one-to-one link is checked to be free before the document is written
		d := pickLive(s.B)
		c.Run = func(n *SimNode, h *handles) error {
			if d == nil {
				return nil
			}
			book := "null"
			if len(env.books) > 0 {
				book = fmt.Sprintf("%q", env.books[mod(s.C, len(env.books))]["_docID"])
			}
			_, errs := n.GQL(fmt.Sprintf(`mutation { create_Card(input: {code: %q, holder: %q, book: %s}) { _docID } }`, name+"-card", d["_docID"], book))
			return gqlErr(errs)
		}
	case "relUpdateOneToOne":
		d := pickLive(s.B)
		c.Run = func(n *SimNode, h *handles) error {
			if d == nil {
				return nil
			}
			_, errs := n.GQL(fmt.Sprintf(`mutation { update_Card(filter: {holder: {age: {_ge: %d}}}, input: {holder: %q}) { _docID } }`, 20+mod(s.C, 4), d["_docID"]))
			return gqlErr(errs)
		}
	case "basicImport":
		c.Run = func(n *SimNode, h *handles) error {
			if env.importFile == "" {
				return nil
			}
			return n.DB.BasicImport(n.reqCtx(), env.importFile)
		}
	}
	return c
}

// safeCall runs a call, converting a panic into an error-like outcome.
func safeCall(c *apiCall, n *SimNode, h *handles) (err error, panicked string) {
	defer func() {
		if p := recover(); p != nil {
			panicked = fmt.Sprintf("%v @ %s", p, panicSite())
		}
	}()
	err = c.Run(n, h)
	if err != nil && strings.Contains(err.Error(), "PANIC: ") {
		// a panic inside a request (SimNode.GQL recovers it and reports it among the errors) is a panic of the call
		return nil, err.Error()[strings.Index(err.Error(), "PANIC: ")+7:]
	}
	return err, ""
}

// ---- scratch directory ------------------------------------------------------------

func scratchDir(seed int64) string {
	base := os.Getenv("VERIF_WORK")
	if base == "" {
		base = "/verif/work"
	}
	d := filepath.Join(base, "scratch", fmt.Sprintf("%d-%d", os.Getpid(), seed))
	_ = os.MkdirAll(d, 0o755)
	return d
}

var _ = corekv.ErrNotFound
var _ = synctest.Wait
