package verifsim

func (r *e1Run) scanSecret(node int, key, val []byte)                {}
func (r *e1Run) encArgs(slot int) string                             { return "" }
func (r *e1Run) noteSecrets(slot int, wants map[string]string)       {}
