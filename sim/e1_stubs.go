package verifsim

func (r *e1Run) checkDAG(step, node int, why string)                 {}
func (r *e1Run) afterLocalRecord(node, slot int, c *mCommit)         {}
func (r *e1Run) installMonitors(node int, st *SimStore)              {}
func (r *e1Run) encArgs(slot int) string                             { return "" }
func (r *e1Run) noteSecrets(slot int, wants map[string]string)       {}
func (r *e1Run) doSchema(step, node, b, c int)                       {}
