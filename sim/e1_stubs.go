package verifsim

func (r *e1Run) noteSecrets(slot int, wants map[string]string) {}
