package verifsim

func genC12(seed int64, tier string) *Plan { return &Plan{Prop: "C12", Engine: "E2", Seed: seed, Cfg: map[string]int{}} }
func runC12(p *Plan, res *Result)          {}
