package verifsim

import (
	"context"
	"errors"
	"fmt"
	"sync"

	badgerds "github.com/dgraph-io/badger/v4"
	"github.com/sourcenetwork/corekv"
	"github.com/sourcenetwork/corekv/badger"
)

// Sentinel errors injected by SimStore. They are errors a real store may return.
var (
	ErrSimIO       = errors.New("verifsim: injected I/O error")
	ErrSimDiskFull = errors.New("verifsim: injected no space left on device")
)

// Site names one storage operation inside the current API call.
type Site struct {
	Kind string // get has set delete iter next value seek close newtxn commit
	Key  string
	Occ  int // occurrence of (Kind,Key) within the current call window
}

func (s Site) String() string { return fmt.Sprintf("%s|%x|%d", s.Kind, s.Key, s.Occ) }

// keyClass reduces a key to its store prefix, for coverage statistics.
func keyClass(key string) string {
	// keys look like /db/<store>/...
	n := 0
	for i := 0; i < len(key); i++ {
		if key[i] == '/' {
			n++
			if n == 3 {
				return key[:i]
			}
		}
	}
	return key
}

type kvWrite struct {
	Key []byte
	Val []byte // nil = delete
}

// durableLog is the "disk": committed batches in commit order. It is shared by
// all incarnations of one node's store.
type durableLog struct {
	mu      sync.Mutex
	batches [][]kvWrite
}

func (l *durableLog) len() int {
	l.mu.Lock()
	defer l.mu.Unlock()
	return len(l.batches)
}

// SimStore implements corekv.TxnStore around a real store.
type SimStore struct {
	base corekv.TxnStore
	log  *durableLog

	mu         sync.Mutex
	fenced     bool
	occ        map[string]int
	sites      []Site // recorded sites of the current window (if recording)
	record     bool
	failAt     map[string]error // Site.String() -> error to inject (once)
	failNth    map[string]int   // kind -> fail when this many operations of the kind have been seen (once)
	kindCnt    map[string]int
	nthErr     map[string]error
	fenceAfter int    // >0: fence the store after this many more successful commits
	dir        string // non-empty: badger on this directory (real close / reopen)
	fired      []Site
	opCount    int

	raw func(Site)
	// Leaks: creation sites of iterators that were still open when their transaction was discarded.
	Leaks []string
	// Yield is called before each operation when set (E4b parks tasks here).
	Yield func(Site)
	// OnWrite monitors every write that reaches the store or a transaction.
	OnWrite func(key, val []byte)
	// OnCommit is called after a batch became durable.
	OnCommit func(batch []kvWrite)
	// NoLog disables the durable log (used where restarts are not simulated).
}

func newBaseStore() corekv.TxnStore { return newBaseStoreAt("") }

func newBaseStoreAt(dir string) corekv.TxnStore {
	opts := badgerds.DefaultOptions(dir).WithInMemory(dir == "").WithLoggingLevel(badgerds.ERROR)
	opts.NumCompactors = 2
	opts.NumGoroutines = 1
	opts.MemTableSize = 8 << 20
	opts.ValueLogFileSize = 1 << 26
	opts.BlockCacheSize = 1 << 20
	opts.NumMemtables = 2
	s, err := badger.NewDatastore(dir, opts)
	if err != nil {
		panic(err)
	}
	return s
}

// NewSimStore creates a store on a fresh base and an empty durable log.
func NewSimStore() *SimStore {
	return &SimStore{base: newBaseStore(), log: &durableLog{}, occ: map[string]int{}, failAt: map[string]error{}}
}

// NewSimStoreDir creates a store whose base is badger on a directory.
func NewSimStoreDir(dir string) *SimStore {
	return &SimStore{base: newBaseStoreAt(dir), log: &durableLog{}, occ: map[string]int{}, failAt: map[string]error{}, dir: dir}
}

// FenceAfterCommits fences the store right after the c-th successful commit from now (crash at a commit boundary).
// c == 0 fences at once.
func (s *SimStore) FenceAfterCommits(c int) {
	s.mu.Lock()
	if c <= 0 {
		s.fenced = true
	} else {
		s.fenceAfter = c
	}
	s.mu.Unlock()
}

func (s *SimStore) committed() {
	s.mu.Lock()
	if s.fenceAfter > 0 {
		s.fenceAfter--
		if s.fenceAfter == 0 {
			s.fenced = true
		}
	}
	s.mu.Unlock()
}

// Reopen builds a new incarnation from the first k durable batches (k<0: all).
// The previous incarnation must have been closed or fenced.
func (s *SimStore) Reopen(k int) *SimStore {
	if s.dir != "" {
		// on-disk base: reopen the directory (the log is kept only for bookkeeping)
		return &SimStore{base: newBaseStoreAt(s.dir), log: s.log, occ: map[string]int{}, failAt: map[string]error{}, dir: s.dir,
			OnWrite: s.OnWrite, OnCommit: s.OnCommit}
	}
	s.log.mu.Lock()
	if k < 0 || k > len(s.log.batches) {
		k = len(s.log.batches)
	}
	s.log.batches = s.log.batches[:k]
	batches := s.log.batches
	s.log.mu.Unlock()
	base := newBaseStore()
	ctx := context.Background()
	for _, b := range batches {
		txn := base.NewTxn(false)
		for _, w := range b {
			var err error
			if w.Val == nil {
				err = txn.Delete(ctx, w.Key)
			} else {
				err = txn.Set(ctx, w.Key, w.Val)
			}
			if err != nil {
				panic(fmt.Sprintf("reopen replay: %v", err))
			}
		}
		if err := txn.Commit(); err != nil {
			panic(fmt.Sprintf("reopen replay commit: %v", err))
		}
	}
	return &SimStore{base: base, log: s.log, occ: map[string]int{}, failAt: map[string]error{},
		OnWrite: s.OnWrite, OnCommit: s.OnCommit}
}

// Fence makes every later operation on this incarnation fail (crash).
func (s *SimStore) Fence() {
	s.mu.Lock()
	s.fenced = true
	s.mu.Unlock()
}

// CloseBase releases the underlying store of a fenced incarnation.
func (s *SimStore) CloseBase() { _ = s.base.Close() }

func (s *SimStore) DurableLen() int { return s.log.len() }

// BeginWindow resets occurrence counters; with record=true the sites are kept.
func (s *SimStore) BeginWindow(record bool) {
	s.mu.Lock()
	s.occ = map[string]int{}
	s.sites = nil
	s.record = record
	s.fired = nil
	s.mu.Unlock()
}

func (s *SimStore) EndWindow() []Site {
	s.mu.Lock()
	defer s.mu.Unlock()
	out := s.sites
	s.sites = nil
	s.record = false
	return out
}

// FailSite arms one injected error.
func (s *SimStore) FailSite(site Site, err error) {
	s.mu.Lock()
	s.failAt[site.String()] = err
	s.mu.Unlock()
}

func (s *SimStore) ClearFaults() {
	s.mu.Lock()
	s.failAt = map[string]error{}
	s.failNth = nil
	s.mu.Unlock()
}

// FailNth arms one injected error on the n-th (0-based) operation of a kind from now on.
func (s *SimStore) FailNth(kind string, n int, err error) {
	s.mu.Lock()
	s.failNth = map[string]int{kind: n}
	s.kindCnt = map[string]int{}
	s.nthErr = map[string]error{kind: err}
	s.mu.Unlock()
}

func (s *SimStore) Fired() []Site {
	s.mu.Lock()
	defer s.mu.Unlock()
	return append([]Site(nil), s.fired...)
}

func (s *SimStore) OpCount() int {
	s.mu.Lock()
	defer s.mu.Unlock()
	return s.opCount
}

// SetRaw switches the store to the scheduler mode of E4b: an operation only yields to the
// scheduler; no bookkeeping, no lock (a lock here would be a happens-before edge between tasks
// that the system under test does not have).
//
//go:norace
func (s *SimStore) SetRaw(y func(Site)) { s.raw = y }

// op is called before every storage operation.
//
//go:norace
func (s *SimStore) op(kind string, key []byte) error {
	if y := s.raw; y != nil {
		y(Site{Kind: kind})
		return nil
	}
	s.mu.Lock()
	if s.fenced {
		s.mu.Unlock()
		return corekv.ErrDBClosed
	}
	s.opCount++
	k := kind + "|" + string(key)
	n := s.occ[k]
	s.occ[k] = n + 1
	site := Site{Kind: kind, Key: string(key), Occ: n}
	if s.record {
		s.sites = append(s.sites, site)
	}
	var ferr error
	if len(s.failAt) > 0 {
		ss := site.String()
		if e, ok := s.failAt[ss]; ok {
			delete(s.failAt, ss)
			s.fired = append(s.fired, site)
			ferr = e
		}
	}
	if s.failNth != nil {
		if n, ok := s.failNth[kind]; ok {
			if s.kindCnt[kind] == n {
				ferr = s.nthErr[kind]
				s.fired = append(s.fired, site)
				delete(s.failNth, kind)
			}
			s.kindCnt[kind]++
		}
	}
	y := s.Yield
	s.mu.Unlock()
	if y != nil {
		y(site)
	}
	return ferr
}

func (s *SimStore) Get(ctx context.Context, key []byte) ([]byte, error) {
	if err := s.op("get", key); err != nil {
		return nil, err
	}
	return s.base.Get(ctx, key)
}

func (s *SimStore) Has(ctx context.Context, key []byte) (bool, error) {
	if err := s.op("has", key); err != nil {
		return false, err
	}
	return s.base.Has(ctx, key)
}

func (s *SimStore) Set(ctx context.Context, key, value []byte) error {
	if err := s.op("set", key); err != nil {
		return err
	}
	if s.OnWrite != nil {
		s.OnWrite(key, value)
	}
	if err := s.base.Set(ctx, key, value); err != nil {
		return err
	}
	s.appendBatch([]kvWrite{{Key: clone(key), Val: cloneNN(value)}})
	return nil
}

func (s *SimStore) Delete(ctx context.Context, key []byte) error {
	if err := s.op("delete", key); err != nil {
		return err
	}
	if err := s.base.Delete(ctx, key); err != nil {
		return err
	}
	s.appendBatch([]kvWrite{{Key: clone(key)}})
	return nil
}

func (s *SimStore) appendBatch(b []kvWrite) {
	s.log.mu.Lock()
	s.log.batches = append(s.log.batches, b)
	s.log.mu.Unlock()
	s.committed() // a write outside a transaction is a commit of its own
	if s.OnCommit != nil {
		s.OnCommit(b)
	}
}

func (s *SimStore) Iterator(ctx context.Context, opts corekv.IterOptions) (corekv.Iterator, error) {
	if err := s.op("iter", iterKey(opts)); err != nil {
		return nil, err
	}
	it, err := s.base.Iterator(ctx, opts)
	if err != nil {
		return nil, err
	}
	return &simIter{s: s, it: it, name: iterKey(opts)}, nil
}

func (s *SimStore) Close() error {
	s.mu.Lock()
	already := s.fenced
	s.fenced = true
	s.mu.Unlock()
	if already {
		return nil
	}
	return s.base.Close()
}

func (s *SimStore) NewTxn(readonly bool) corekv.Txn {
	ferr := s.op("newtxn", nil)
	return &simTxn{s: s, t: s.base.NewTxn(readonly), dead: ferr}
}

func iterKey(o corekv.IterOptions) []byte {
	if o.Prefix != nil {
		return o.Prefix
	}
	return append(append(append([]byte{}, o.Start...), '.', '.'), o.End...)
}

func clone(b []byte) []byte { return append([]byte(nil), b...) }
func cloneNN(b []byte) []byte {
	c := make([]byte, len(b))
	copy(c, b)
	return c
}

type simTxn struct {
	s      *SimStore
	t      corekv.Txn
	writes []kvWrite
	dead   error
	done   bool
	iters  []*simIter
}

// leakedIterSites: creation sites of iterators still open when their transaction ended.
func (t *simTxn) noteLeaks() {
	for _, it := range t.iters {
		if !it.closed {
			t.s.mu.Lock()
			t.s.Leaks = append(t.s.Leaks, it.site)
			t.s.mu.Unlock()
		}
	}
}

func (t *simTxn) Get(ctx context.Context, key []byte) ([]byte, error) {
	if t.dead != nil {
		return nil, t.dead
	}
	if err := t.s.op("get", key); err != nil {
		return nil, err
	}
	return t.t.Get(ctx, key)
}

func (t *simTxn) Has(ctx context.Context, key []byte) (bool, error) {
	if t.dead != nil {
		return false, t.dead
	}
	if err := t.s.op("has", key); err != nil {
		return false, err
	}
	return t.t.Has(ctx, key)
}

func (t *simTxn) Set(ctx context.Context, key, value []byte) error {
	if t.dead != nil {
		return t.dead
	}
	if err := t.s.op("set", key); err != nil {
		return err
	}
	if t.s.OnWrite != nil {
		t.s.OnWrite(key, value)
	}
	if err := t.t.Set(ctx, key, value); err != nil {
		return err
	}
	t.writes = append(t.writes, kvWrite{Key: clone(key), Val: cloneNN(value)})
	return nil
}

func (t *simTxn) Delete(ctx context.Context, key []byte) error {
	if t.dead != nil {
		return t.dead
	}
	if err := t.s.op("delete", key); err != nil {
		return err
	}
	if err := t.t.Delete(ctx, key); err != nil {
		return err
	}
	t.writes = append(t.writes, kvWrite{Key: clone(key)})
	return nil
}

func (t *simTxn) Iterator(ctx context.Context, opts corekv.IterOptions) (corekv.Iterator, error) {
	if t.dead != nil {
		return nil, t.dead
	}
	if err := t.s.op("iter", iterKey(opts)); err != nil {
		return nil, err
	}
	it, err := t.t.Iterator(ctx, opts)
	if err != nil {
		return nil, err
	}
	si := &simIter{s: t.s, it: it, name: iterKey(opts), site: defraFrames()}
	t.iters = append(t.iters, si)
	return si, nil
}

func (t *simTxn) Commit() error {
	if t.dead != nil {
		t.t.Discard()
		return t.dead
	}
	if err := t.s.op("commit", nil); err != nil {
		// a failing commit never reaches the base store
		t.t.Discard()
		t.done = true
		return err
	}
	if t.done {
		return t.t.Commit()
	}
	// The durable log must be appended in the same order as the base store
	// serialises commits; hold the log lock across the base commit.
	err := func() error {
		t.s.log.mu.Lock()
		defer t.s.log.mu.Unlock() // also when the base store panics
		err := t.t.Commit()
		if err == nil && len(t.writes) > 0 {
			t.s.log.batches = append(t.s.log.batches, t.writes)
		}
		return err
	}()
	t.done = true
	if err == nil && len(t.writes) > 0 {
		t.s.committed()
		if t.s.OnCommit != nil {
			t.s.OnCommit(t.writes)
		}
	}
	return err
}

func (t *simTxn) Discard() {
	t.done = true
	t.noteLeaks()
	t.t.Discard()
}

type simIter struct {
	s      *SimStore
	it     corekv.Iterator
	name   []byte
	closed bool
	site   string
}

func (i *simIter) Next() (bool, error) {
	if err := i.s.op("next", i.name); err != nil {
		return false, err
	}
	return i.it.Next()
}
func (i *simIter) Key() []byte { return i.it.Key() }
func (i *simIter) Value() ([]byte, error) {
	if err := i.s.op("value", i.name); err != nil {
		return nil, err
	}
	return i.it.Value()
}
func (i *simIter) Seek(k []byte) (bool, error) {
	if err := i.s.op("seek", i.name); err != nil {
		return false, err
	}
	return i.it.Seek(k)
}
func (i *simIter) Reset() { i.it.Reset() }
func (i *simIter) Close() error {
	// closing is never failed: a failing Close would leak the base iterator
	i.closed = true
	return i.it.Close()
}

var _ corekv.TxnStore = (*SimStore)(nil)
