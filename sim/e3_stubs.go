package verifsim

func genC14(seed int64, tier string) *Plan { return &Plan{Prop: "C14", Engine: "E3", Seed: seed, Cfg: map[string]int{}} }
func genC18(seed int64, tier string) *Plan { return &Plan{Prop: "C18", Engine: "E3", Seed: seed, Cfg: map[string]int{}} }
func runC14(p *Plan, res *Result)          {}
func runC18(p *Plan, res *Result)          {}
