package verifsim

func genC18(seed int64, tier string) *Plan { return &Plan{Prop: "C18", Engine: "E3", Seed: seed, Cfg: map[string]int{}} }
func runC18(p *Plan, res *Result)          {}
