package verifsim
