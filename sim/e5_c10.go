package verifsim

import (
	"context"
	"sync"
	"fmt"
	"os"
	"sort"
	"strings"
	"testing/synctest"
	"time"

	"github.com/sourcenetwork/immutable"

	"github.com/sourcenetwork/defradb/acp/dac"
	"github.com/sourcenetwork/defradb/acp/identity"
	"github.com/sourcenetwork/defradb/client"
	"github.com/sourcenetwork/defradb/internal/db"
	"github.com/sourcenetwork/defradb/node"
)

// C10 — documents you may not read are invisible through every query path.

const c10Policy = `
name: Test Policy
description: A Policy
actor:
  name: actor
resources:
  users:
    permissions:
      read:
        expr: owner + reader + updater + deleter
      update:
        expr: owner + updater
      delete:
        expr: owner + deleter
    relations:
      owner:
        types:
          - actor
      reader:
        types:
          - actor
      updater:
        types:
          - actor
      deleter:
        types:
          - actor
      admin:
        manages:
          - reader
        types:
          - actor
`

func c10SDL(policyID string, indexed, branchable bool) string {
	ix := ""
	if indexed {
		ix = " @index"
	}
	br := ""
	if branchable {
		br = " @branchable"
	}
	return fmt.Sprintf(`type User`+br+` @policy(id: %q, resource: "users") {
  name: String%s
  age: Int%s
  score: Float
  team: String
}
`, policyID, ix, ix)
}

func genC10(seed int64, tier string) *Plan {
	r := newRng(seed, 10)
	p := &Plan{Prop: "C10", Engine: "E5", Seed: seed, Cfg: map[string]int{}}
	p.Cfg["indexed"] = r.IntN(2)
	p.Cfg["branchable"] = pick(r, []int{0, 0, 0, 1})
	n := 6 + r.IntN(25)
	if tier == "quick" {
		n = 6 + r.IntN(14)
	}
	for i := 0; i < n; i++ {
		x := r.IntN(100)
		switch {
		case x < 38:
			p.Steps = append(p.Steps, Step{K: "create", A: r.IntN(3), B: r.IntN(64), C: r.IntN(64)}) // A: 0 public, 1-2 private
		case x < 58:
			p.Steps = append(p.Steps, Step{K: "update", A: r.IntN(64), B: r.IntN(64)})
		case x < 66:
			p.Steps = append(p.Steps, Step{K: "delete", A: r.IntN(64)})
		case x < 80:
			p.Steps = append(p.Steps, Step{K: "grant", A: r.IntN(64)})
		case x < 88:
			p.Steps = append(p.Steps, Step{K: "revoke", A: r.IntN(64)})
		case x < 94:
			p.Steps = append(p.Steps, Step{K: "attack", A: r.IntN(64), B: r.IntN(3)})
		default:
			p.Steps = append(p.Steps, Step{K: "restart"})
		}
	}
	return p
}

type c10Doc struct {
	createQ string // the mutation that created it
	private bool
	deleted bool
	readers map[string]bool
	name    string
}

type c10Run struct {
	p        *Plan
	res      *Result
	ctx      context.Context
	real     *SimNode
	pub      *SimNode // twin that only ever receives the public documents
	owner    identity.FullIdentity
	reader   identity.FullIdentity
	stranger identity.FullIdentity
	docs     map[string]*c10Doc
	policyID string
	acpReal  immutable.Option[dac.DocumentACP]
	step     int
	seq      int
	shape    map[string]bool
	subs     map[string]*c10Sub
}

// c10Sub collects what a GraphQL subscription delivers.
type c10Sub struct {
	mu   sync.Mutex
	msgs []string
}

func (s *c10Sub) take() []string {
	s.mu.Lock()
	defer s.mu.Unlock()
	out := s.msgs
	s.msgs = nil
	sort.Strings(out)
	return out
}

// subscribe opens `subscription { User { ... } }` on n for the given requester.
func (r *c10Run) subscribe(n *SimNode, id immutable.Option[identity.Identity]) (*c10Sub, error) {
	res := n.DB.ExecRequest(identity.WithContext(n.ctx, id), `subscription { User { _docID name age score team } }`)
	if len(res.GQL.Errors) > 0 {
		return nil, res.GQL.Errors[0]
	}
	if res.Subscription == nil {
		return nil, fmt.Errorf("no subscription channel")
	}
	sub := &c10Sub{}
	go func() {
		for m := range res.Subscription {
			var errs []string
			for _, e := range m.Errors {
				errs = append(errs, e.Error())
			}
			sub.mu.Lock()
			sub.msgs = append(sub.msgs, canon(m.Data)+" "+strings.Join(errs, ";"))
			sub.mu.Unlock()
		}
	}()
	return sub, nil
}

func some(i identity.FullIdentity) immutable.Option[identity.Identity] {
	return immutable.Some[identity.Identity](i)
}

var anon = immutable.None[identity.Identity]()

func runC10(p *Plan, res *Result) {
	ctx, cancel := context.WithCancel(context.Background())
	defer cancel()
	installRand(p.Seed)
	r := &c10Run{p: p, res: res, ctx: ctx, docs: map[string]*c10Doc{}, shape: map[string]bool{}}
	r.owner = seededIdentity(p.Seed, "owner", false)
	r.reader = seededIdentity(p.Seed, "reader", false)
	r.stranger = seededIdentity(p.Seed, "stranger", false)
	start := func(name string) (*SimNode, immutable.Option[dac.DocumentACP], string, bool) {
		setRandStep("start|" + name)
		acp, err := node.NewDocumentACP(ctx, node.WithDocumentACPPath(""))
		if err != nil {
			res.HarnessErr = "acp: " + err.Error()
			return nil, acp, "", false
		}
		nd, err := startNode(ctx, name, NewSimStore(), NodeOpts{DAC: acp, DBOpts: []db.Option{db.WithEnabledSigning(false)}})
		if err != nil {
			res.HarnessErr = "start: " + err.Error()
			return nil, acp, "", false
		}
		pr, err := nd.DB.AddDACPolicy(identity.WithContext(nd.ctx, some(r.owner)), c10Policy)
		if err != nil {
			res.HarnessErr = "policy: " + err.Error()
			return nd, acp, "", false
		}
		if _, err := nd.DB.AddSchema(nd.ctx, c10SDL(pr.PolicyID, p.cfg("indexed", 0) == 1, p.cfg("branchable", 0) == 1)); err != nil {
			res.HarnessErr = "schema: " + err.Error()
			return nd, acp, "", false
		}
		return nd, acp, pr.PolicyID, true
	}
	var ok bool
	var pid2 string
	r.real, r.acpReal, r.policyID, ok = start("real")
	if r.real != nil {
		defer func() { r.real.Close() }()
	}
	if !ok {
		return
	}
	r.pub, _, pid2, ok = start("pub")
	if r.pub != nil {
		defer r.pub.Close()
	}
	if !ok {
		return
	}
	if pid2 != r.policyID {
		res.HarnessErr = "precondition: twin got a different policy id"
		return
	}
	r.subs = map[string]*c10Sub{}
	for _, who := range []struct {
		name string
		id   immutable.Option[identity.Identity]
	}{{"stranger", some(r.stranger)}, {"anonymous", anon}} {
		for nname, nd := range map[string]*SimNode{"real": r.real, "pub": r.pub} {
			sub, err := r.subscribe(nd, who.id)
			if err != nil {
				res.HarnessErr = "subscribe: " + err.Error()
				return
			}
			r.subs[nname+"/"+who.name] = sub
		}
	}
	synctest.Wait()
	for i, s := range p.Steps {
		if len(res.Viols) > 0 || res.HarnessErr != "" {
			break
		}
		r.step = i
		setRandStep(fmt.Sprintf("step|%d", i))
		if os.Getenv("VERIF_TRACE") != "" {
			fmt.Fprintf(os.Stderr, "TRACE step %d %s %v reqs=%d\n", i, s.K, time.Now().UnixMilli(), res.Stats["requests_compared"])
		}
		r.exec(i, s)
		synctest.Wait()
		r.real.TakeUpdates()
		r.pub.TakeUpdates()
		if len(res.Viols) == 0 && res.HarnessErr == "" {
			r.check(i, s.K)
		}
	}
	res.ShapeSet = sortedCopy(keysOf(r.shape))
	res.Shape = strings.Join(res.ShapeSet, ";")
	res.Nontrivial = len(r.shape) > 0
}

func (r *c10Run) liveDocs(pred func(*c10Doc) bool) []string {
	var out []string
	for id, d := range r.docs {
		if !d.deleted && (pred == nil || pred(d)) {
			out = append(out, id)
		}
	}
	sort.Strings(out)
	return out
}

func (r *c10Run) exec(i int, s Step) {
	r.seq++
	switch s.K {
	case "create":
		q := fmt.Sprintf(`mutation { create_User(input: {name: "n%d", age: %d, score: %d.5, team: %q}) { _docID } }`, r.seq, 20+mod(s.B, 6), mod(s.C, 9), []string{"red", "blue"}[mod(s.C, 2)])
		private := s.A != 0
		id := anon
		if private {
			id = some(r.owner)
		}
		data, errs := r.real.GQLAs(id, q)
		if len(errs) > 0 {
			r.res.HarnessErr = fmt.Sprintf("create: %v", errs)
			return
		}
		docID := fmt.Sprint(rows(data, "create_User")[0]["_docID"])
		r.docs[docID] = &c10Doc{createQ: q, private: private, readers: map[string]bool{}, name: fmt.Sprintf("n%d", r.seq)}
		if !private {
			d2, errs := r.pub.GQLAs(anon, q)
			if len(errs) > 0 || fmt.Sprint(rows(d2, "create_User")[0]["_docID"]) != docID {
				r.res.HarnessErr = fmt.Sprintf("twin create diverged: %v", errs)
			}
		}
	case "update":
		ids := r.liveDocs(nil)
		if len(ids) == 0 {
			return
		}
		docID := ids[mod(s.A, len(ids))]
		q := fmt.Sprintf(`mutation { update_User(docID: %q, input: {age: %d, score: %d.25}) { _docID } }`, docID, 30+mod(s.B, 6), mod(s.B, 7))
		d := r.docs[docID]
		id := anon
		if d.private {
			id = some(r.owner)
		}
		if _, errs := r.real.GQLAs(id, q); len(errs) > 0 {
			r.res.HarnessErr = fmt.Sprintf("update: %v", errs)
			return
		}
		if !d.private {
			if _, errs := r.pub.GQLAs(anon, q); len(errs) > 0 {
				r.res.HarnessErr = fmt.Sprintf("twin update: %v", errs)
			}
		}
	case "delete":
		ids := r.liveDocs(nil)
		if len(ids) < 2 {
			return
		}
		docID := ids[mod(s.A, len(ids))]
		q := fmt.Sprintf(`mutation { delete_User(docID: %q) { _docID } }`, docID)
		d := r.docs[docID]
		id := anon
		if d.private {
			id = some(r.owner)
		}
		if _, errs := r.real.GQLAs(id, q); len(errs) > 0 {
			r.res.HarnessErr = fmt.Sprintf("delete: %v", errs)
			return
		}
		d.deleted = true
		if !d.private {
			if _, errs := r.pub.GQLAs(anon, q); len(errs) > 0 {
				r.res.HarnessErr = fmt.Sprintf("twin delete: %v", errs)
			}
		}
	case "grant", "revoke":
		ids := r.liveDocs(func(d *c10Doc) bool { return d.private })
		if len(ids) == 0 {
			return
		}
		docID := ids[mod(s.A, len(ids))]
		octx := identity.WithContext(r.real.ctx, some(r.owner))
		if s.K == "grant" {
			if _, err := r.real.DB.AddDACActorRelationship(octx, "User", docID, "reader", r.reader.DID()); err != nil {
				r.res.HarnessErr = "grant: " + err.Error()
				return
			}
			r.docs[docID].readers["reader"] = true
			r.res.Stats["grants"]++
		} else {
			if _, err := r.real.DB.DeleteDACActorRelationship(octx, "User", docID, "reader", r.reader.DID()); err != nil {
				r.res.HarnessErr = "revoke: " + err.Error()
				return
			}
			delete(r.docs[docID].readers, "reader")
			r.res.Stats["revokes"]++
		}
	case "attack":
		// update / delete attempts by requesters lacking the permission must change nothing
		ids := r.liveDocs(func(d *c10Doc) bool { return d.private })
		if len(ids) == 0 {
			return
		}
		docID := ids[mod(s.A, len(ids))]
		before := r.ownerView()
		who := []immutable.Option[identity.Identity]{some(r.stranger), anon, some(r.reader)}[mod(s.B, 3)]
		whoName := []string{"stranger", "anonymous", "reader"}[mod(s.B, 3)]
		histBefore, _ := r.real.GQLAs(some(r.owner), fmt.Sprintf(`query { commits(docID: %q) { cid } }`, docID))
		r.real.GQLAs(who, fmt.Sprintf(`mutation { update_User(docID: %q, input: {age: 99}) { _docID } }`, docID))
		r.real.GQLAs(who, fmt.Sprintf(`mutation { delete_User(docID: %q) { _docID } }`, docID))
		// a create with the very content of the private document (it would get the same docID)
		if whoName != "reader" {
			r.real.GQLAs(who, r.docs[docID].createQ)
			synctest.Wait()
			histAfter, _ := r.real.GQLAs(some(r.owner), fmt.Sprintf(`query { commits(docID: %q) { cid } }`, docID))
			if a, b := canon(sortRows(rows(histBefore, "commits"), "cid")), canon(sortRows(rows(histAfter, "commits"), "cid")); a != b {
				r.res.violate("C10", "write-without-permission-took-effect", "create-with-same-content/"+whoName, r.step,
					"a %s create with the content of private document %s changed its commit history: %d commits before, %d after", whoName, docID, len(rows(histBefore, "commits")), len(rows(histAfter, "commits")))
				return
			}
		}
		// a filtered update legitimately touches the public documents
		fq := `mutation { update_User(filter: {age: {_ge: 0}}, input: {team: "hacked"}) { _docID } }`
		_, ferrs := r.real.GQLAs(who, fq)
		synctest.Wait()
		if len(ferrs) == 0 {
			r.pub.GQLAs(who, fq)
		} else if whoName != "reader" {
			// a requester that cannot even read the private documents must get what it would get without them
			if _, terrs := r.pub.GQLAs(who, fq); len(terrs) == 0 {
				r.res.violate("C10", "differs-from-never-contained", "filtered-update/"+whoName, r.step, "%s as %s fails on the real node (%v) but succeeds on the database that never contained the private documents", fq, whoName, ferrs)
				return
			}
		}
		after := r.ownerView()
		for id, d := range r.docs {
			if d.private && before[id] != after[id] {
				r.res.violate("C10", "write-without-permission-took-effect", whoName, r.step, "a %s request changed private document %s: %s => %s", whoName, id, before[id], after[id])
				return
			}
		}
		r.res.Stats["attacks"]++
	case "restart":
		// the local ACP engine keeps its state in memory here and DB.Close closes it: restarts of an
		// ACP-enabled node are not part of this check
	}
}

// ownerView: docID -> canonical row as the owner sees it (incl. deleted).
func (r *c10Run) ownerView() map[string]string {
	data, _ := r.real.GQLAs(some(r.owner), `query { User(showDeleted: true) { _docID _deleted name age score team } }`)
	out := map[string]string{}
	for _, row := range rows(data, "User") {
		out[fmt.Sprint(row["_docID"])] = canon(row)
	}
	return out
}

type c10Req struct {
	q   string
	key string
	tag string
}

func (r *c10Run) requests(hiddenLive []string) []c10Req {
	sel := "_docID name age score team"
	reqs := []c10Req{
		{"query { User { " + sel + " } }", "User", "listing"},
		{"query { User(showDeleted: true) { _deleted " + sel + " } }", "User", "listing-showDeleted"},
		{"query { User(filter: {age: {_ge: 22}}) { " + sel + " } }", "User", "filter-indexed-field"},
		{"query { User(filter: {score: {_lt: 5.0}}) { " + sel + " } }", "User", "filter"},
		{"query { User(filter: {_or: [{team: {_eq: \"red\"}}, {age: {_le: 21}}]}) { " + sel + " } }", "User", "filter-or"},
		{"query { User(order: {age: DESC}) { _docID age } }", "User", "order"},
		{"query { User(order: {score: ASC}, limit: 2) { score } }", "User", "order-limit"},
		{"query { User(order: {name: ASC}, limit: 2, offset: 1) { name } }", "User", "order-limit-offset"},
		{"query { _count(User: {}) }", "_count", "count"},
		{"query { _count(User: {filter: {age: {_ge: 22}}}) }", "_count", "count-filter"},
		{"query { _sum(User: {field: age}) }", "_sum", "sum"},
		{"query { _avg(User: {field: score}) }", "_avg", "avg"},
		{"query { _max(User: {field: age}) }", "_max", "max"},
		{"query { _min(User: {field: score}) }", "_min", "min"},
		{"query { User(groupBy: [team]) { team _count(_group: {}) _group { name } } }", "User", "group"},
		{"query { commits { cid docID fieldName height } }", "commits", "commits"},
		{"query { commits(order: {height: DESC}, limit: 3) { docID height } }", "commits", "commits-order-limit"},
	}
	if r.p.cfg("branchable", 0) == 1 {
		for k := range reqs {
			if strings.HasPrefix(reqs[k].tag, "commits") {
				reqs[k].tag += "@branchable"
			}
		}
	}
	for _, id := range hiddenLive {
		reqs = append(reqs,
			c10Req{fmt.Sprintf(`query { User(docID: %q) { %s } }`, id, sel), "User", "by-id"},
			c10Req{fmt.Sprintf(`query { commits(docID: %q) { cid docID fieldName height delta } }`, id), "commits", "commits-by-doc"},
			c10Req{fmt.Sprintf(`query { latestCommits(docID: %q) { cid docID } }`, id), "latestCommits", "latestCommits"},
		)
	}
	return reqs
}

func (r *c10Run) check(i int, after string) {
	// subscriptions of requesters who may read only the public documents deliver what they deliver on the twin
	for _, who := range []string{"stranger", "anonymous"} {
		got, want := r.subs["real/"+who].take(), r.subs["pub/"+who].take()
		r.res.Stats["subscription_messages_compared"] += len(want)
		if strings.Join(got, "\n") != strings.Join(want, "\n") {
			r.res.violate("C10", "differs-from-never-contained", "subscription/"+who, i,
				"after %s the subscription of %s delivered %d message(s) %s; on the database that never contained the private documents %d message(s) %s",
				after, who, len(got), short(strings.Join(got, " | ")), len(want), short(strings.Join(want, " | ")))
			return
		}
	}
	// requesters who see only the public documents: compared with the twin that never held the private ones
	private := r.liveDocs(func(d *c10Doc) bool { return d.private })
	hiddenAll := []string{}
	for id, d := range r.docs {
		if d.private {
			hiddenAll = append(hiddenAll, id)
		}
	}
	sort.Strings(hiddenAll)
	if len(hiddenAll) > 3 {
		hiddenAll = hiddenAll[:3]
	}
	for _, who := range []struct {
		name string
		id   immutable.Option[identity.Identity]
	}{{"stranger", some(r.stranger)}, {"anonymous", anon}} {
		for _, rq := range r.requests(hiddenAll) {
			dr, er := r.real.GQLAs(who.id, rq.q)
			dt, et := r.pub.GQLAs(who.id, rq.q)
			r.res.Stats["requests_compared"]++
			if len(et) > 0 {
				if len(er) == 0 && strings.Contains(rq.tag, "by-doc") == false && rq.tag != "latestCommits" {
					r.res.violate("C10", "differs-from-never-contained", rq.tag+"/"+who.name+"/error-vs-data", i, "%s as %s: twin: %v, real node returned data %s", rq.q, who.name, et, short(canon(dr)))
					return
				}
				continue
			}
			if len(er) > 0 {
				r.res.violate("C10", "differs-from-never-contained", rq.tag+"/"+who.name+"/error", i, "%s as %s fails on the real node (%v) but not on the twin", rq.q, who.name, er)
				return
			}
			a, b := c10Canon(dr[rq.key], rq), c10Canon(dt[rq.key], rq)
			if a != b {
				r.res.violate("C10", "differs-from-never-contained", rq.tag+"/"+who.name, i,
					"%s as %s (after %s): real node %s, database that never contained the private documents %s", rq.q, who.name, after, short(a), short(b))
				return
			}
			r.shape[rq.tag+"|"+who.name] = true
		}
	}
	// reads at a commit of a private document
	for _, id := range hiddenAll {
		lc, errs := r.real.GQLAs(some(r.owner), fmt.Sprintf(`query { latestCommits(docID: %q) { cid } }`, id))
		if len(errs) > 0 || len(rows(lc, "latestCommits")) == 0 {
			continue
		}
		c := fmt.Sprint(rows(lc, "latestCommits")[0]["cid"])
		for _, who := range []struct {
			name string
			id   immutable.Option[identity.Identity]
		}{{"stranger", some(r.stranger)}, {"anonymous", anon}} {
			d, _ := r.real.GQLAs(who.id, fmt.Sprintf(`query { User(cid: %q, docID: %q) { _docID name age score team } }`, c, id))
			r.res.Stats["requests_compared"]++
			if len(rows(d, "User")) > 0 {
				r.res.violate("C10", "private-document-readable", "read-at-commit/"+who.name, i, "User(cid: %s, docID: %s) as %s returned %s", cidShort(c), id, who.name, short(canon(d)))
				return
			}
			r.shape["read-at-commit|"+who.name] = true
			// the commit itself, asked for by its cid (with and without depth, with and without the docID)
			for _, cq := range []string{
				fmt.Sprintf(`query { commits(cid: %q) { cid docID delta height } }`, c),
				fmt.Sprintf(`query { commits(cid: %q, depth: 3) { cid docID delta height } }`, c),
				fmt.Sprintf(`query { commits(docID: %q, cid: %q) { cid docID delta height } }`, id, c),
			} {
				dc, _ := r.real.GQLAs(who.id, cq)
				r.res.Stats["requests_compared"]++
				if len(rows(dc, "commits")) > 0 {
					r.res.violate("C10", "private-document-readable", "commit-by-cid/"+who.name, i, "%s as %s returned %s", cq, who.name, short(canon(dc)))
					return
				}
			}
			r.shape["commit-by-cid|"+who.name] = true
		}
	}
	// the reader: same requests as the owner would get with the documents hidden from the reader filtered out
	var hiddenFromReader []string
	for _, id := range private {
		if !r.docs[id].readers["reader"] {
			hiddenFromReader = append(hiddenFromReader, id)
		}
	}
	for id, d := range r.docs {
		if d.private && d.deleted && !d.readers["reader"] {
			hiddenFromReader = append(hiddenFromReader, id)
		}
	}
	sort.Strings(hiddenFromReader)
	nin := "[]"
	if len(hiddenFromReader) > 0 {
		var qs []string
		for _, id := range hiddenFromReader {
			qs = append(qs, fmt.Sprintf("%q", id))
		}
		nin = "[" + strings.Join(qs, ", ") + "]"
	}
	sel := "_docID name age score team"
	pairs := [][3]string{
		{"query { User { " + sel + " } }", fmt.Sprintf("query { User(filter: {_docID: {_nin: %s}}) { %s } }", nin, sel), "listing"},
		{"query { User(filter: {age: {_ge: 22}}) { " + sel + " } }", fmt.Sprintf("query { User(filter: {_and: [{age: {_ge: 22}}, {_docID: {_nin: %s}}]}) { %s } }", nin, sel), "filter"},
		{"query { User(order: {age: DESC}) { age } }", fmt.Sprintf("query { User(filter: {_docID: {_nin: %s}}, order: {age: DESC}) { age } }", nin), "order"},
		{"query { _count(User: {}) }", fmt.Sprintf("query { _count(User: {filter: {_docID: {_nin: %s}}}) }", nin), "count"},
		{"query { _sum(User: {field: age}) }", fmt.Sprintf("query { _sum(User: {field: age, filter: {_docID: {_nin: %s}}}) }", nin), "sum"},
	}
	for _, pr := range pairs {
		dr, er := r.real.GQLAs(some(r.reader), pr[0])
		do, eo := r.real.GQLAs(some(r.owner), pr[1])
		r.res.Stats["requests_compared"]++
		if len(eo) > 0 {
			continue
		}
		if len(er) > 0 {
			r.res.violate("C10", "reader-request-fails", pr[2], i, "%s as reader: %v", pr[0], er)
			return
		}
		a, b := multisetAny(dr), multisetAny(do)
		if a != b {
			r.res.violate("C10", "differs-from-never-contained", pr[2]+"/reader-after-grant-revoke", i,
				"%s as reader (after %s; hidden from the reader: %v): %s; as if those documents did not exist: %s", pr[0], after, hiddenFromReader, short(a), short(b))
			return
		}
		r.shape[pr[2]+"|reader"] = true
	}
	r.res.Stats["checkpoints"]++
}

func multisetAny(d map[string]any) string {
	for k, v := range d {
		switch t := v.(type) {
		case []map[string]any:
			return k + ":" + multiset(t)
		default:
			return k + ":" + canon(t)
		}
	}
	return ""
}

// c10Canon: row lists are compared as multisets unless the request orders them.
func c10Canon(v any, rq c10Req) string {
	switch t := v.(type) {
	case []map[string]any:
		if strings.Contains(rq.q, "order:") {
			return canon(t)
		}
		return multiset(t)
	}
	return canon(v)
}

var _ = client.Active
