// Package verifsim is the deterministic-simulation harness for DefraDB.
// It is compiled into the defradb module through `go test -c -overlay`
// (see /verif/build.sh); nothing here is part of the shipped code.
package verifsim

import (
	"crypto/sha256"
	"encoding/hex"
	"encoding/json"
	"fmt"
	"math/rand/v2"
	"sort"
	"strings"
)

// Step is one simulator event of a plan. Arguments are small integers that are
// interpreted modulo the size of a canonically sorted candidate set, so that a
// plan stays meaningful when other steps are removed (plans are removal-closed).
type Step struct {
	K string `json:"k"`
	A int    `json:"a,omitempty"`
	B int    `json:"b,omitempty"`
	C int    `json:"c,omitempty"`
	D int    `json:"d,omitempty"`
	S string `json:"s,omitempty"`
}

func (s Step) String() string {
	if s.S != "" {
		return fmt.Sprintf("%s(%d,%d,%d,%d,%q)", s.K, s.A, s.B, s.C, s.D, s.S)
	}
	return fmt.Sprintf("%s(%d,%d,%d,%d)", s.K, s.A, s.B, s.C, s.D)
}

// Plan is everything one run depends on besides the code under test.
type Plan struct {
	Prop   string         `json:"prop"`
	Engine string         `json:"engine"`
	Seed   int64          `json:"seed"`
	Cfg    map[string]int `json:"cfg"`
	Steps  []Step         `json:"steps"`
}

func (p *Plan) Clone() *Plan {
	q := &Plan{Prop: p.Prop, Engine: p.Engine, Seed: p.Seed, Cfg: map[string]int{}}
	for k, v := range p.Cfg {
		q.Cfg[k] = v
	}
	q.Steps = append([]Step(nil), p.Steps...)
	return q
}

func (p *Plan) cfg(k string, def int) int {
	if v, ok := p.Cfg[k]; ok {
		return v
	}
	return def
}

// Violation is a failed oracle clause.
type Violation struct {
	Prop   string `json:"prop"`
	Clause string `json:"clause"` // stable name of the oracle clause
	Class  string `json:"class"`  // clause + call site / history class: identifies a finding
	Detail string `json:"detail"`
	Step   int    `json:"step"`
}

func (v *Violation) Sig() string { return v.Prop + "/" + v.Class }

// Result of one run.
type Result struct {
	Viols      []*Violation   `json:"viols,omitempty"`
	Log        []string       `json:"-"`
	LogHash    string         `json:"log_hash"`
	Stats      map[string]int `json:"stats"`
	Shape      string         `json:"shape"`
	ShapeSet   []string       `json:"shape_set,omitempty"` // several distinct cases reached by one run
	Nontrivial bool           `json:"nontrivial"`
	SimTimeS   float64        `json:"sim_time_s,omitempty"`
	HarnessErr string         `json:"harness_err,omitempty"`
}

func newResult() *Result { return &Result{Stats: map[string]int{}} }

func (r *Result) logf(format string, a ...any) {
	r.Log = append(r.Log, fmt.Sprintf(format, a...))
}

func (r *Result) violate(prop, clause, class string, step int, format string, a ...any) {
	if class == "" {
		class = clause
	}
	v := &Violation{Prop: prop, Clause: clause, Class: class, Step: step, Detail: fmt.Sprintf(format, a...)}
	r.Viols = append(r.Viols, v)
	r.logf("VIOL %s %s step=%d %s", prop, class, step, v.Detail)
}

func (r *Result) finish() {
	h := sha256.New()
	for _, l := range r.Log {
		h.Write([]byte(l))
		h.Write([]byte{'\n'})
	}
	r.LogHash = hex.EncodeToString(h.Sum(nil))[:16]
}

// first violation for a property (or any when prop == "")
func (r *Result) first(prop string) *Violation {
	for _, v := range r.Viols {
		if prop == "" || v.Prop == prop {
			return v
		}
	}
	return nil
}

// Engine couples a plan generator with an interpreter.
type Engine interface {
	Name() string
	// Gen produces the plan for a seed. tier is "quick" or "thorough".
	Gen(prop string, seed int64, tier string) *Plan
	// Run interprets the plan against the real system. It must be a pure
	// function of (plan, code).
	Run(p *Plan) *Result
}

// rng helpers -------------------------------------------------------------

func newRng(seed int64, stream uint64) *rand.Rand {
	return rand.New(rand.NewPCG(uint64(seed), stream^0x9e3779b97f4a7c15))
}

func pick[T any](r *rand.Rand, xs []T) T { return xs[r.IntN(len(xs))] }

func chance(r *rand.Rand, pct int) bool { return r.IntN(100) < pct }

func mod(a, n int) int {
	if n <= 0 {
		return 0
	}
	a %= n
	if a < 0 {
		a += n
	}
	return a
}

func hashStrings(xs ...string) string {
	h := sha256.New()
	for _, x := range xs {
		h.Write([]byte(x))
		h.Write([]byte{0})
	}
	return hex.EncodeToString(h.Sum(nil))[:16]
}

func sortedKeys[V any](m map[string]V) []string {
	ks := make([]string, 0, len(m))
	for k := range m {
		ks = append(ks, k)
	}
	sort.Strings(ks)
	return ks
}

// canonical JSON (maps sorted by encoding/json already) used for comparisons.
func canon(v any) string {
	b, err := json.Marshal(v)
	if err != nil {
		return fmt.Sprintf("!marshal:%v:%#v", err, v)
	}
	return string(b)
}

func short(s string) string {
	if len(s) > 300 {
		return s[:300] + "…"
	}
	return s
}

func cidShort(c string) string {
	if len(c) > 10 {
		return c[len(c)-8:]
	}
	return c
}

func joinSorted(xs []string) string {
	ys := append([]string(nil), xs...)
	sort.Strings(ys)
	return strings.Join(ys, ",")
}
