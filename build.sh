#!/bin/bash
# Build the simulation binary from /repo's current working tree.
#   build.sh [race]   -> /verif/work/bin/sim  (or sim-race)
# The harness sources under /verif/sim are compiled as a package of the defradb
# module (internal/verifsim) through `-overlay`; /repo is not modified.
set -euo pipefail
VERIF=$(dirname "$(readlink -f "$0")")
REPO=${VERIF_REPO:-/repo}
WORK=$VERIF/work
mkdir -p "$WORK/bin" "$WORK/mod"
export GOFLAGS=-mod=mod GOPROXY=off GOSUMDB=off GOTOOLCHAIN=local CGO_ENABLED=1
GO=/opt/veriftools/go1.26.8/bin/go
[ -x "$GO" ] || GO=go1.26.8
variant=${1:-plain}
# modfile copy (+ porcupine)
cp "$REPO/go.mod" "$WORK/mod/go.mod"
cp "$REPO/go.sum" "$WORK/mod/go.sum"
( cd "$REPO" && $GO mod edit -modfile="$WORK/mod/go.mod" -require=github.com/anishathalye/porcupine@v1.3.0 )
# overlay
python3 - "$REPO" "$VERIF/sim" > "$WORK/overlay.json" <<'PY'
import json,os,sys
repo,src=sys.argv[1],sys.argv[2]
m={}
for f in sorted(os.listdir(src)):
    if f.endswith('.go') or f.endswith('.s'):
        m[os.path.join(repo,'internal/verifsim',f)]=os.path.join(src,f)
print(json.dumps({"Replace":m},indent=1))
PY
out=$WORK/bin/sim
extra=()
if [ "$variant" = race ]; then out=$WORK/bin/sim-race; extra=(-race); fi
cd "$REPO"
$GO test -c -o "$out.new" -overlay "$WORK/overlay.json" -modfile="$WORK/mod/go.mod" -vet=off \
   -ldflags=-checklinkname=0 -tags verif "${extra[@]}" ./internal/verifsim/
mv "$out.new" "$out"
echo "built $out"
