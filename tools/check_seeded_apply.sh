#!/bin/bash
# Lists the seeded changes whose patch no longer applies to /repo's working tree (they have to be re-based).
rc=0
for d in /verif/seeded/*/; do
  git -C /repo apply --check "$d/patch.diff" 2>/dev/null || { echo "STALE $d"; rc=1; }
done
exit $rc
