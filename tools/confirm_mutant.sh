#!/bin/bash
# confirm_mutant.sh <name> <pkg> <test regex> [extra test pkgs...]
# In the sub-agent's scratch worktree /tmp/mut-<name> (patch applied, demo test present): checks that the tree
# builds, the demonstration fails with the change and passes without it, and that the listed test packages pass
# with the change. Then files the mutant under /verif/seeded/<name>/ (meta.json is written by hand afterwards).
set -u
name=$1; pkg=$2; rx=$3; shift 3
wt=/tmp/mut-$name; out=/tmp/mut-$name-out
export GOFLAGS=-mod=mod GOPROXY=off
cd $wt || exit 2
# make sure the tree is exactly HEAD + patch + demo
git checkout -q -- . ; git apply $out/patch.diff || { echo "patch does not apply"; exit 2; }
for f in $out/demo/*_test.go; do [ -f "$f" ] && cp -n "$f" "$wt/$pkg/" 2>/dev/null; done
go build ./... || { echo "BUILD FAILS"; exit 1; }
echo "== demo WITH the change (must fail)"
go test -count=1 -run "$rx" ./$pkg/ > /tmp/mut-$name-with.log 2>&1; rc1=$?
tail -3 /tmp/mut-$name-with.log | cut -c1-200
git apply -R $out/patch.diff
echo "== demo WITHOUT the change (must pass)"
go test -count=1 -run "$rx" ./$pkg/ > /tmp/mut-$name-without.log 2>&1; rc2=$?
tail -2 /tmp/mut-$name-without.log | cut -c1-200
git apply $out/patch.diff
rc3=0
if [ $# -gt 0 ]; then
  echo "== existing tests WITH the change: $*"
  demo=$(cd $out/demo && ls *_test.go 2>/dev/null | sed "s|^|$wt/$pkg/|"); mkdir -p /tmp/mut-$name-hold; for d in $demo; do mv $d /tmp/mut-$name-hold/; done
  go test -count=1 "$@" 2>&1 | grep -v "^ok\|no test files\| INF " | tail -8; rc3=${PIPESTATUS[0]}
  for d in /tmp/mut-$name-hold/*; do [ -f "$d" ] && mv $d $wt/$pkg/; done
fi
echo "RESULT demo_with_rc=$rc1 demo_without_rc=$rc2 existing_rc=$rc3"
if [ $rc1 -ne 0 ] && [ $rc2 -eq 0 ] && [ $rc3 -eq 0 ]; then
  mkdir -p /verif/seeded/$name; cp $out/patch.diff /verif/seeded/$name/; cp -r $out/demo /verif/seeded/$name/; cp $out/notes.md /verif/seeded/$name/ 2>/dev/null
  echo "CONFIRMED -> /verif/seeded/$name"
else
  echo "NOT CONFIRMED"
fi
