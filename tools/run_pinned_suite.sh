#!/bin/bash
# Runs the pinned test suite of /repo (guard off) and compares with the stable-pass list of /root/.vp/BASELINE.json.
# Output: work/suite.json (go test -json), summary on stdout. Exit 0 iff every stable test passed.
cd /repo || exit 2
export GOFLAGS=-mod=mod GOPROXY=off
out=/verif/work/suite.json
go test -mod=mod -json -vet=off -count=1 -timeout 25m ./... > $out 2>/verif/work/suite.err
python3 - "$out" <<'PY'
import json,sys
b=json.load(open('/root/.vp/BASELINE.json'))
stable=set(b['stable_pass'])
res={}
for l in open(sys.argv[1]):
    try: e=json.loads(l)
    except Exception: continue
    if e.get('Test') and e.get('Action') in ('pass','fail','skip'):
        res[e['Package']+'::'+e['Test']]=e['Action']
missing=[t for t in stable if t not in res]
failed=[t for t in stable if res.get(t)=='fail']
print(f"stable={len(stable)} passed={sum(1 for t in stable if res.get(t)=='pass')} failed={len(failed)} missing={len(missing)}")
for t in failed[:40]: print("FAILED", t)
for t in missing[:40]: print("MISSING", t)
sys.exit(1 if failed or missing else 0)
PY
