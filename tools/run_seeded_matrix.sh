#!/bin/bash
# Re-runs every seeded change against the quick tier of the check(s) its meta.json names; prints CAUGHT/MISSED/BROKEN per change.
# /repo must be clean. Evidence and replay files of the clean tree are kept (see try_mutant.sh).
cd /verif
for d in seeded/*/; do
  id=$(basename $d)
  if grep -q '"status": "retired' $d/meta.json; then echo "$id: retired (see meta.json)"; continue; fi
  props=$(python3 -c "import json;m=json.load(open('$d/meta.json'));print(' '.join(k for k,v in m['caught_by'].items() if not v.lower().startswith(('missed','not affected'))))")
  for p in $props; do
    r=$(tools/try_mutant.sh /verif/$d/patch.diff $p 2>&1 | grep -m1 "^CAUGHT\|^MISSED\|^BROKEN\|patch does not apply\|repo not clean" | cut -c1-150)
    echo "$id $p: $r"
  done
done
