#!/bin/bash
# try_mutant.sh <patch.diff> <property id>... : applies a seeded defect to /repo, runs the quick checks of the
# given properties, and restores /repo. Prints one line per check: CAUGHT / MISSED / BROKEN.
set -u
patch=$1; shift
cd /repo
if [ -n "$(git status --porcelain)" ]; then echo "repo not clean"; exit 2; fi
git apply "$patch" || { echo "patch does not apply"; exit 2; }
trap 'git -C /repo checkout -- . ; git -C /repo clean -fdq -- internal net client acp crypto event node 2>/dev/null' EXIT
cd /verif
# evidence and replay files written by a run on the changed tree must not stay: keep the ones of the clean tree
bak=$(mktemp -d /verif/work/mutant-bak.XXXX)
cp -a /verif/evidence "$bak/evidence"; cp -a /verif/replays "$bak/replays"
trap 'git -C /repo checkout -- . ; git -C /repo clean -fdq -- internal net client acp crypto event node 2>/dev/null; rm -rf /verif/evidence /verif/replays; mv "$bak/evidence" /verif/evidence; mv "$bak/replays" /verif/replays; rmdir "$bak"' EXIT
for p in "$@"; do
  out=$(VERIF_SEED=${VERIF_SEED:-1} ./check "$p" --tier quick 2>&1); rc=$?
  case $rc in
    1) echo "CAUGHT $p: $(echo "$out" | grep -m1 '^violation\|^data race' | cut -c1-300)"; echo "$out" | grep VIOLATION ;;
    0) echo "MISSED $p: $(echo "$out" | tail -1)" ;;
    *) echo "BROKEN $p (exit $rc): $(echo "$out" | tail -3 | tr '\n' ' ' | cut -c1-400)" ;;
  esac
done
