#!/bin/bash
# try_mutant.sh <patch.diff> <property id>... : applies a seeded defect to /repo, runs the quick checks of the
# given properties, and restores /repo. Prints one line per check: CAUGHT / MISSED / BROKEN.
set -u
patch=$1; shift
cd /repo
if [ -n "$(git status --porcelain)" ]; then echo "repo not clean"; exit 2; fi
git apply "$patch" || { echo "patch does not apply"; exit 2; }
trap 'git -C /repo checkout -- . ; git -C /repo clean -fdq -- internal net client acp crypto event node 2>/dev/null' EXIT
cd /verif
# evidence and replay files written by a run on the changed tree must not stay: keep the ones of the clean tree
# (only the files of the properties run here are touched: other checks may be running at the same time)
bak=$(mktemp -d /verif/work/mutant-bak.XXXX)
mkdir -p "$bak/evidence" "$bak/replays"
for p in "$@"; do
  cp -a /verif/evidence/$p.json "$bak/evidence/" 2>/dev/null
  cp -a /verif/replays/$p-*.json "$bak/replays/" 2>/dev/null
done
restore() {
  git -C /repo checkout -- . ; git -C /repo clean -fdq -- internal net client acp crypto event node 2>/dev/null
  for p in "$@"; do
    rm -f /verif/replays/$p-*.json
    cp -a "$bak"/replays/$p-*.json /verif/replays/ 2>/dev/null
    cp -a "$bak/evidence/$p.json" /verif/evidence/ 2>/dev/null
  done
  rm -rf "$bak"
}
trap 'restore "$@"' EXIT
for p in "$@"; do
  out=$(VERIF_SEED=${VERIF_SEED:-1} ./check "$p" --tier quick 2>&1); rc=$?
  case $rc in
    1) echo "CAUGHT $p: $(echo "$out" | grep -m1 '^violation\|^data race' | cut -c1-300)"; echo "$out" | grep VIOLATION ;;
    0) echo "MISSED $p: $(echo "$out" | tail -1)" ;;
    *) echo "BROKEN $p (exit $rc): $(echo "$out" | tail -3 | tr '\n' ' ' | cut -c1-400)" ;;
  esac
done
