#!/bin/bash
# Run every claimed quick check on /repo's current tree; summary to stdout.
cd "$(dirname "$(readlink -f "$0")")/.."
ids=$(python3 -c "import props; print(' '.join(sorted(props.PROPS)))")
rc_all=0
for id in ${@:-$ids}; do
  start=$(date +%s)
  ./check $id --tier quick > work/quick-$id.log 2>&1
  rc=$?
  echo "$id rc=$rc $(( $(date +%s) - start ))s $(grep -E 'VIOLATION|KNOWN-FINDING|HARNESS' work/quick-$id.log | head -5 | tr '\n' ';')"
  [ $rc -ne 0 ] && rc_all=1
done
exit $rc_all
