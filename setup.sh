#!/bin/bash
# Run once after a fresh restore, offline: builds the simulation binary (warms the Go build cache).
set -euo pipefail
cd /verif
./build.sh
echo "setup ok"
