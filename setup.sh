#!/bin/bash
# Run once after a fresh restore, offline: builds the simulation binary (warms the Go build cache).
set -euo pipefail
cd "$(dirname "$(readlink -f "$0")")"
./build.sh
echo "setup ok"
