#!/usr/bin/env python3
"""Regenerates MANIFEST.json from props.py (claimed checks) and na.py (not applicable / not claimed)."""
import json, os, subprocess, sys
VERIF = os.path.dirname(os.path.abspath(__file__))
sys.path.insert(0, VERIF)
from props import PROPS
from na import NOT_APPLICABLE

hook_commits = subprocess.run(["git", "-C", "/repo", "log", "--format=%H %s", "--grep=^verif hook"],
                              stdout=subprocess.PIPE, text=True).stdout.strip().splitlines()
checks = []
for pid in sorted(PROPS):
    c = PROPS[pid]
    checks.append({
        "property_id": pid,
        "quick_cmd": "./check %s --tier quick" % pid,
        "thorough_cmd": "./check %s --tier thorough" % pid,
        "evidence_file": "/verif/evidence/%s.json" % pid,
        "replay_cmd_template": "./check replay {path}",
        "engine": c["engine"],
        "level_claimed": {"category": c["level"], "text": c["text"], "design_ref": c["design_ref"]},
        "level_note": c["note"],
        "technique": c["technique"],
    })
engines = {}
for pid, c in PROPS.items():
    engines.setdefault(c["engine"], []).append(pid)
m = {
    "version": 1,
    "setup_cmd": "./setup.sh",
    "hooks": {
        "guard": "verif",
        "enable": "go build tag: -tags verif (build.sh compiles /verif/sim into the defradb module via -overlay with go1.26.8)",
        "baseline_off_cmd": "cd /repo && go test -mod=mod -json -vet=off -count=1 -timeout 25m ./...",
        "source_commits": [l.split()[0] for l in hook_commits],
        "add_only": True,
    },
    "engines": [{"name": e, "path": "/verif/sim", "serves_properties": sorted(p),
                 "kind_free_text": "deterministic simulation with fault injection (seeded plans, real DefraDB nodes in one process)"}
                for e, p in sorted(engines.items())],
    "checks": checks,
    "not_applicable": [{"property_id": k, "reason": v} for k, v in sorted(NOT_APPLICABLE.items()) if k not in PROPS],
    "notes": "See DESIGN.md. Known findings and fixed defects: known_findings.txt.",
}
json.dump(m, open(os.path.join(VERIF, "MANIFEST.json"), "w"), indent=1)
ids = set(json.loads(l)["id"] for l in open(os.path.join(VERIF, "properties.jsonl")))
missing = ids - set(PROPS) - set(NOT_APPLICABLE)
if missing:
    print("WARNING: properties neither claimed nor not_applicable:", sorted(missing))
print("MANIFEST.json written: %d checks, %d not applicable" % (len(checks), len(m["not_applicable"])))
