# Properties not claimed, with the reason. Entries for properties that are
# claimed in props.py are ignored by mkmanifest.py.
PENDING = "check not built yet in this snapshot of /verif (planned, see DESIGN.md §10)"
NOT_APPLICABLE = {
    "C08": "pure function of (collection contents, request text): no schedule, clock, fault or interleaving for a simulator to decide (DESIGN.md §6)",
    "C13": "identifiers are pure functions of content; the only nondeterminism is Go map iteration order, which no seam controls (DESIGN.md §6)",
    "C17": "order preservation and round trip of the key encoding are pure functions of value pairs (DESIGN.md §6)",
    
    
}
